package main

import (
	"bytes"
	"encoding/hex"
	"fmt"
	"io"
	"net"
	"reflect"
	"runtime"
	"strings"
	"time"
)

// ---------------------------------------------------------------------------
// Scripted transport: a net.Conn whose every call is logged and whose k-th
// write-side call can be made to fail; the read side plays a chunk script.
// ---------------------------------------------------------------------------

type tErr struct {
	id      int
	timeout bool
}

func (e *tErr) Error() string   { return fmt.Sprintf("scripted transport error %d", e.id) }
func (e *tErr) Timeout() bool   { return e.timeout }
func (e *tErr) Temporary() bool { return e.timeout }

type rErr struct{ id int }

func (e *rErr) Error() string { return fmt.Sprintf("scripted reader error %d", e.id) }

type fault struct {
	kind string // "fail" | "short"
	n    int
	id   int
	to   bool // error reports Timeout()
}

// recorder of events of the current operation (shared by all conns of a scenario)
type evlog struct {
	evs []string
}

func (l *evlog) add(s string) { l.evs = append(l.evs, s) }
func (l *evlog) take() []string {
	e := l.evs
	l.evs = nil
	return e
}

const writeWaitToken = 1000000

var timeBase = time.Date(2200, 1, 1, 0, 0, 0, 0, time.UTC)

// deadline token -> time.Time. 0 = zero time, >0 = far future (base + d hours), <0 = long past.
func tokTime(d int) time.Time {
	if d == 0 {
		return time.Time{}
	}
	if d < 0 {
		return time.Unix(1000000+int64(d), 0)
	}
	return timeBase.Add(time.Duration(d) * time.Hour)
}

func timeTok(t time.Time) string {
	if t.IsZero() {
		return "0"
	}
	if t.After(timeBase.Add(-time.Minute)) {
		d := t.Sub(timeBase)
		if d%time.Hour == 0 {
			return fmt.Sprint(int(d / time.Hour))
		}
	}
	if t.Before(time.Unix(1000001, 0)) {
		return fmt.Sprint(t.Unix() - 1000000)
	}
	dt := time.Until(t)
	if dt > 0 && dt <= 1100*time.Millisecond {
		return fmt.Sprint(writeWaitToken)
	}
	return "T" + fmt.Sprint(t.UnixNano())
}

type rchunk struct {
	b []byte
}

type TConn struct {
	log *evlog
	// write side
	calls            int
	faults           map[int]fault
	wire             []byte
	curWD            time.Time // write deadline in force (last SetWriteDeadline that succeeded)
	wantWD           time.Time
	wantSet          bool
	wdBad            string
	faultFired       bool // a scripted write-side fault has been returned to the package
	writesAfterFault int  // transport Write calls made after that (C10: must stay 0)
	// read side
	chunks       [][]byte
	term         error // terminal error, repeated forever once reached
	together     bool  // terminal is returned together with the last chunk's last bytes
	readLog      bool
	after        [][]byte // served after the terminal error has been returned once (transient fault)
	termGiven    bool
	apiFailed    bool // the harness saw NextReader / ReadMessage return an error
	readAfterErr int  // transport reads that happened after the error was returned (must stay 0)
	reads        int
	// misc
	closed    int
	deadlines []string
	quiet     bool // do not log write-side events
	// generic op recording and fault injection for the handshake streams (C16): every call on the
	// net.Conn is one op; gfail names the op index that fails and how
	gen    bool
	ops    []string
	gfail  int    // -1 = none
	gkind  string // "error" | "timeout" | "eof"
	gfired bool
	// nRead: number of Read calls that reached the transport
	nRead int
	// slow: Write dawdles and then checks that nobody changed the bytes it was given (mutated counts)
	slow    bool
	mutated int
	// armedFor: how far in the future each non-zero SetDeadline was
	armedFor []time.Duration
	// replies computed from what has been written so far: each time a Read finds no chunks, the next
	// function of the queue is consulted (dynReply is the single-reply shorthand)
	dynReply  func(wire []byte) []byte
	dynQ      []func(wire []byte) []byte
	allChunks [][]byte // every non-empty result of Read, in order
}

func newTConn(l *evlog) *TConn { return &TConn{log: l, faults: map[int]fault{}, gfail: -1} }

// gop records a generic op and reports whether it must fail
func (c *TConn) gop(name string) error {
	if !c.gen {
		return nil
	}
	idx := len(c.ops)
	c.ops = append(c.ops, name)
	if idx == c.gfail {
		c.gfired = true
		switch c.gkind {
		case "timeout":
			return &tErr{id: 900 + idx, timeout: true}
		case "eof":
			return io.EOF
		default:
			return &tErr{id: 900 + idx}
		}
	}
	return nil
}

func hx(b []byte) string {
	if len(b) == 0 {
		return "-"
	}
	return hex.EncodeToString(b)
}

func unhx(s string) []byte {
	if s == "-" || s == "" {
		return nil
	}
	b, err := hex.DecodeString(s)
	if err != nil {
		panic(err)
	}
	return b
}

func (c *TConn) Write(p []byte) (int, error) {
	if err := c.gop("W"); err != nil {
		return 0, err
	}
	k := c.calls
	c.calls++
	f, ok := c.faults[k]
	cp := append([]byte(nil), p...)
	if c.slow {
		// a transport takes its time; until Write returns the bytes are its own
		time.Sleep(150 * time.Microsecond)
		if !bytes.Equal(cp, p) {
			c.mutated++
		}
	}
	c.checkWD(len(p))
	if c.faultFired {
		c.writesAfterFault++
	}
	if ok {
		c.faultFired = true
	}
	if !ok {
		c.wire = append(c.wire, cp...)
		if !c.quiet {
			c.log.add(fmt.Sprintf("wr:%s:%d", hx(cp), len(cp)))
		}
		return len(p), nil
	}
	n := 0
	if f.kind == "short" {
		n = f.n
		if n > len(p) {
			n = len(p)
		}
	}
	c.wire = append(c.wire, cp[:n]...)
	if !c.quiet {
		c.log.add(fmt.Sprintf("wr:%s:%d:F%d", hx(cp), n, f.id))
	}
	return n, &tErr{id: f.id, timeout: f.to}
}

// wantDeadline tells the transport which write deadline the next API call asked for; Write records the
// first transport write that happens under a different one.
func (c *TConn) wantDeadline(t time.Time) {
	c.wantWD, c.wantSet = t, true
}

func (c *TConn) checkWD(n int) {
	if c.wantSet && c.wdBad == "" && !c.curWD.Equal(c.wantWD) {
		c.wdBad = fmt.Sprintf("transport write of %d bytes under write deadline %s, the caller asked for %s", n, timeTok(c.curWD), timeTok(c.wantWD))
	}
}

func (c *TConn) SetWriteDeadline(t time.Time) error {
	if c.gen {
		return c.gop("SWD:" + deadlineClass(t))
	}
	k := c.calls
	c.calls++
	f, ok := c.faults[k]
	if !ok {
		c.curWD = t
		if !c.quiet {
			c.log.add("swd:" + timeTok(t))
		}
		return nil
	}
	if !c.quiet {
		c.log.add(fmt.Sprintf("swd:%s:F%d", timeTok(t), f.id))
	}
	c.faultFired = true
	return &tErr{id: f.id, timeout: f.to}
}

func (c *TConn) SetDeadline(t time.Time) error {
	c.deadlines = append(c.deadlines, "d:"+timeTok(t))
	if !t.IsZero() {
		c.armedFor = append(c.armedFor, time.Until(t))
	}
	return c.gop("SD:" + deadlineClass(t))
}
func (c *TConn) SetReadDeadline(t time.Time) error {
	c.deadlines = append(c.deadlines, "rd:"+timeTok(t))
	return c.gop("SRD:" + deadlineClass(t))
}

// deadlineClass: "0" for the zero time, "D" for a deadline in the future, "P" for one in the past
func deadlineClass(t time.Time) string {
	if t.IsZero() {
		return "0"
	}
	if time.Until(t) > 0 {
		return "D"
	}
	return "P"
}

func (c *TConn) Read(p []byte) (int, error) {
	c.nRead++
	if err := c.gop("R"); err != nil {
		return 0, err
	}
	c.reads++
	if len(c.chunks) == 0 && c.dynReply != nil {
		f := c.dynReply
		c.dynReply = nil
		if b := f(c.wire); len(b) > 0 {
			c.chunks = [][]byte{b}
		}
	}
	if len(c.chunks) == 0 && len(c.dynQ) > 0 {
		f := c.dynQ[0]
		c.dynQ = c.dynQ[1:]
		if b := f(c.wire); len(b) > 0 {
			c.chunks = [][]byte{b}
		}
	}
	if len(c.chunks) == 0 && c.termGiven && c.apiFailed && len(c.after) > 0 {
		// the terminal error was transient (e.g. a timeout): the transport has more bytes. A correct
		// reader never gets here: NextReader has reported the error, it is latched and nothing reads
		// again. (Before the API has reported it the error stays sticky, as in the model: io.CopyN may
		// legitimately swallow an error that arrives together with the last skipped byte.)
		c.chunks, c.after = c.after, nil
		c.readAfterErr++
	}
	if len(c.chunks) == 0 {
		c.termGiven = true
		if c.term == nil {
			return 0, io.EOF
		}
		return 0, c.term
	}
	ch := c.chunks[0]
	n := copy(p, ch)
	c.allChunks = append(c.allChunks, append([]byte(nil), ch[:n]...))
	if n == len(ch) {
		c.chunks = c.chunks[1:]
		if len(c.chunks) == 0 && c.together {
			c.termGiven = true
			t := c.term
			if t == nil {
				t = io.EOF
			}
			return n, t
		}
	} else {
		c.chunks[0] = ch[n:]
	}
	return n, nil
}

func (c *TConn) Close() error {
	c.closed++
	return c.gop("C")
}

type tAddr struct{}

func (tAddr) Network() string { return "scripted" }
func (tAddr) String() string  { return "scripted" }

func (c *TConn) LocalAddr() net.Addr  { return tAddr{} }
func (c *TConn) RemoteAddr() net.Addr { return tAddr{} }

// ---------------------------------------------------------------------------
// deterministic mask key source: hands out the bytes of `keys` cyclically
// ---------------------------------------------------------------------------

type keySource struct {
	keys []byte
	pos  int
	// draws: every 4-byte key handed out, in order
	draws [][4]byte
}

func (k *keySource) Read(p []byte) (int, error) {
	if len(k.keys) == 0 {
		for i := range p {
			p[i] = 0
		}
		return len(p), nil
	}
	for i := range p {
		p[i] = k.keys[k.pos%len(k.keys)]
		k.pos++
	}
	if len(p) == 4 {
		k.draws = append(k.draws, [4]byte{p[0], p[1], p[2], p[3]})
	}
	return len(p), nil
}

// ---------------------------------------------------------------------------
// instrumented LIFO buffer pool: logs get/put with stable buffer ids, poisons
// buffers while they are in the pool and checks the poison on Get.
// ---------------------------------------------------------------------------

type poolItem struct {
	v  interface{}
	id int
}

type knownBuf struct {
	b  []byte
	id int
}

func peekPooled(v interface{}) []byte {
	rv := reflect.ValueOf(v)
	if rv.Kind() != reflect.Struct || rv.NumField() != 1 || rv.Field(0).Kind() != reflect.Slice {
		return nil
	}
	b := rv.Field(0).Bytes()
	if len(b) == 0 {
		return nil
	}
	return b
}

type tPool struct {
	log     *evlog
	known   []knownBuf
	free    []poolItem
	nextID  int
	corrupt int
	nGet    int
	nPut    int
}

func (p *tPool) Get() interface{} {
	p.nGet++
	if len(p.free) == 0 {
		p.log.add("get:miss")
		return nil
	}
	it := p.free[len(p.free)-1]
	p.free = p.free[:len(p.free)-1]
	if b := peekPooled(it.v); b != nil {
		for _, x := range b {
			if x != 0xEE {
				p.corrupt++
				break
			}
		}
	}
	p.log.add(fmt.Sprintf("get:%d", it.id))
	return it.v
}

func (p *tPool) Put(v interface{}) {
	p.nPut++
	b := peekPooled(v)
	if b == nil {
		p.log.add("put:nil")
		p.free = append(p.free, poolItem{v, -1})
		return
	}
	id := -1
	// identity by backing array
	for _, it := range p.known {
		if &it.b[0] == &b[0] {
			id = it.id
		}
	}
	if id < 0 {
		id = p.nextID
		p.nextID++
		p.known = append(p.known, knownBuf{b, id})
	}
	for i := range b {
		b[i] = 0xEE // poison: any later touch by the old owner corrupts a frame visibly
	}
	p.log.add(fmt.Sprintf("put:%d", id))
	p.free = append(p.free, poolItem{v, id})
}

func joinEvs(evs []string) string { return strings.Join(evs, " ") }

type runtimeMem struct{ total uint64 }

func (m *runtimeMem) read() {
	var ms runtime.MemStats
	runtime.ReadMemStats(&ms)
	m.total = ms.TotalAlloc
}
