package main

import (
	"bytes"
	"compress/flate"
	"fmt"
	"io"
	"math/big"
	"math/rand"
	"runtime"
	"strings"
	"time"

	"github.com/gorilla/websocket"
)

// ---------------------------------------------------------------------------
// Reader scenarios: a frame stream built by the independent encoder is fed to
// a real Conn through the scripted transport with a chosen chunking; a read
// program is executed; the Lean model runs the same script.
// ---------------------------------------------------------------------------

type gFrame struct {
	enc        encFrame
	msg        int // index of the data message it belongs to, -1 for control frames
	start, end int // byte offsets in the stream
	hdrEnd     int
}

type gMsg struct {
	t          int
	plain      []byte
	raw        []byte // concatenated frame payloads (deflated when compressed)
	compressed bool
	first      int // index of first frame
	last       int // index of last frame
}

type rOpts struct {
	mode      string // conform | violate | cut | limit | fuzz
	compress  bool
	together  bool
	wfaults   bool
	handlers  bool
	lenient   bool // allow non-minimal length encodings
	smallOnly bool
}

type rGen struct {
	rng         *rand.Rand
	sc          *scenario
	log         *evlog
	opt         rOpts
	srv         bool // reader is the server (peer frames are masked)
	nego        bool
	rbuf        int
	limit       int64
	badErrSeen  bool
	kept        []string // arguments recording handlers received (retained as given)
	keptCopy    []string // private copies made inside the handler
	whole       bool     // cut mode: the whole stream arrives before the transport ends
	tailBig     bool
	localClosed bool
	nonMinCtl   bool
	frames      []gFrame
	msgs        []gMsg
	stream      []byte
	cut         int    // bytes actually delivered by the transport
	violAt      int    // index of the violating frame, -1
	viol        string // description
	topBit      bool   // the violation is a 64-bit length with the top bit set
	term        error
	hp, hq, hc  string
	// runtime
	c        *websocket.Conn
	t        *TConn
	readers  []io.Reader
	rmsg     []int // message index of each reader handle
	rdata    [][]byte
	rdone    []bool
	nrOK     int
	firstErr string
	hlog     []string
	nrFailed int  // NextReader calls that returned an error so far
	bare     bool // no handler was ever installed: the package's own defaults, not even wrapped for logging
	lastZ    bool
	fuzzy    bool // a compressed message was read: buffer state no longer predicted, only full reads from here on
}

func deflateBytes(p []byte, level int, variant int) []byte {
	var buf bytes.Buffer
	fw, _ := flate.NewWriter(&buf, level)
	switch variant {
	case 1:
		// several blocks: flush in the middle
		h := len(p) / 2
		fw.Write(p[:h])
		fw.Flush()
		fw.Write(p[h:])
	default:
		fw.Write(p)
	}
	fw.Flush()
	b := buf.Bytes()
	return b[:len(b)-4]
}

var rbufChoices = []int{1, 16, 124, 125, 126, 127, 200, 256, 512, 1024, 4096, 0}

func (g *rGen) randKey() [4]byte {
	var k [4]byte
	switch g.rng.Intn(6) {
	case 0:
		k = [4]byte{0, 0, 0, 0}
	case 1:
		k = [4]byte{0xff, 0xff, 0xff, 0xff}
	default:
		for i := range k {
			k[i] = byte(g.rng.Intn(256))
		}
	}
	return k
}

func (g *rGen) plen() int {
	r := g.rng
	b := g.rbuf
	if b == 0 {
		b = 4096
	}
	if b < 125 {
		b = 125
	}
	c := []int{0, 0, 1, 2, 3, 5, 124, 125, 126, 127, b - 1, b, b + 1, 2 * b, 2*b + 1, 300, 511, 512, 513}
	switch x := r.Intn(10); {
	case x < 6:
		n := c[r.Intn(len(c))]
		if g.opt.smallOnly && n > 700 {
			n = r.Intn(200)
		}
		return n
	case x < 9:
		return r.Intn(200)
	default:
		if g.opt.smallOnly {
			return r.Intn(600)
		}
		return []int{65535, 65536, 65537, 8192, 8193, 20000}[r.Intn(6)]
	}
}

func (g *rGen) data(n int) []byte {
	b := make([]byte, n)
	switch g.rng.Intn(3) {
	case 0:
		for i := range b {
			b[i] = byte(g.rng.Intn(256))
		}
	case 1:
		for i := range b {
			b[i] = byte('a' + i%11)
		}
	default:
		for i := range b {
			b[i] = byte(i * 7)
		}
	}
	return b
}

func (g *rGen) addFrame(f encFrame, msg int) {
	if g.srv {
		f.masked = true
		f.key = g.randKey()
	}
	if g.opt.lenient && g.rng.Intn(10) == 0 {
		f.lenClass = 1 + g.rng.Intn(2)
		if f.op >= 8 {
			g.nonMinCtl = true // not a conformant frame (RFC 6455 5.2: minimal length encoding); the reader refuses it
		}
	}
	b := f.encode()
	gf := gFrame{enc: f, msg: msg, start: len(g.stream), end: len(g.stream) + len(b)}
	gf.hdrEnd = gf.end - len(f.payload)
	g.stream = append(g.stream, b...)
	g.frames = append(g.frames, gf)
}

func (g *rGen) ctlFrame() encFrame {
	r := g.rng
	op := []int{9, 10, 9, 10, 9}[r.Intn(5)]
	n := []int{0, 1, 2, 7, 124, 125, 50}[r.Intn(7)]
	return encFrame{fin: true, op: op, payload: g.data(n)}
}

var closeCodesOK = []int{1000, 1001, 1002, 1003, 1007, 1008, 1009, 1010, 1011, 1012, 1013, 3000, 3999, 4000, 4999}

func (g *rGen) closeFrame(valid bool) encFrame {
	r := g.rng
	var p []byte
	switch r.Intn(5) {
	case 0:
		// no body
	default:
		code := closeCodesOK[r.Intn(len(closeCodesOK))]
		reason := []string{"", "bye", "going away now", strings.Repeat("é", 30), strings.Repeat("x", 123), " \U0001F600"}[r.Intn(6)]
		if len(reason) > 123 {
			reason = reason[:122]
		}
		p = append([]byte{byte(code >> 8), byte(code)}, reason...)
	}
	return encFrame{fin: true, op: 8, payload: p}
}

func (g *rGen) buildMessage(mi int) {
	r := g.rng
	t := 1 + r.Intn(2)
	plain := g.data(g.plen())
	raw := plain
	compressed := false
	if g.nego && g.opt.compress && r.Intn(2) == 0 {
		compressed = true
		lvl := []int{-2, 0, 1, 1, 6, 9}[r.Intn(6)]
		raw = deflateBytes(plain, lvl, r.Intn(2))
	}
	m := gMsg{t: t, plain: plain, raw: raw, compressed: compressed, first: len(g.frames)}
	nfrag := []int{1, 1, 1, 2, 3, 5}[r.Intn(6)]
	rest := raw
	for i := 0; i < nfrag; i++ {
		var n int
		if i == nfrag-1 {
			n = len(rest)
		} else {
			switch r.Intn(4) {
			case 0:
				n = 0
			default:
				n = r.Intn(len(rest) + 1)
			}
		}
		op := 0
		if i == 0 {
			op = t
		}
		f := encFrame{fin: i == nfrag-1, rsv1: compressed && i == 0, op: op, payload: rest[:n]}
		rest = rest[n:]
		// control frames between fragments
		if i > 0 && r.Intn(3) == 0 {
			nc := 1 + r.Intn(2)
			for j := 0; j < nc; j++ {
				g.addFrame(g.ctlFrame(), -1)
			}
		}
		g.addFrame(f, mi)
	}
	m.last = len(g.frames) - 1
	g.msgs = append(g.msgs, m)
}

// a frame that violates RFC 6455 in the current state (inMsg = a fragmented message is open)
func (g *rGen) violation(inMsg bool) (encFrame, string) {
	r := g.rng
	base := encFrame{fin: true, op: 2, payload: g.data(r.Intn(20))}
	if inMsg {
		base.op = 0
	}
	switch r.Intn(16) {
	case 0:
		base.rsv2 = true
		return base, "rsv2"
	case 1:
		base.rsv3 = true
		return base, "rsv3"
	case 2:
		if g.nego {
			base.rsv2 = true
			return base, "rsv2"
		}
		base.rsv1 = true
		return base, "rsv1 not negotiated"
	case 3:
		base.op = []int{3, 4, 5, 6, 7, 11, 12, 13, 14, 15}[r.Intn(10)]
		return base, "reserved opcode"
	case 4:
		return encFrame{fin: false, op: 9 + r.Intn(2), payload: g.data(3)}, "fragmented control"
	case 5:
		return encFrame{fin: true, op: []int{8, 9, 10}[r.Intn(3)], payload: g.data(126 + r.Intn(3)), lenClass: 0}, "control > 125"
	case 6:
		if inMsg {
			base.op = 1 + r.Intn(2)
			return base, "new data frame inside message"
		}
		base.op = 0
		return base, "continuation while idle"
	case 7:
		return base, "wrong mask" // flipped by the caller
	case 8:
		code := []int{0, 999, 1004, 1005, 1006, 1014, 1015, 1016, 2000, 2999, 5000, 65535}[r.Intn(12)]
		return encFrame{fin: true, op: 8, payload: []byte{byte(code >> 8), byte(code), 'x'}}, "bad close code"
	case 9:
		bad := [][]byte{{0xff}, {0xc0, 0x80}, {0xed, 0xa0, 0x80}, {0xf4, 0x90, 0x80, 0x80}, {0xe2, 0x82}, {'o', 'k', 0x80}}[r.Intn(6)]
		return encFrame{fin: true, op: 8, payload: append([]byte{0x03, 0xe8}, bad...)}, "close reason not utf8"
	case 10:
		v := uint64(1)<<63 | uint64(r.Intn(1000))
		if r.Intn(2) == 0 {
			v = ^uint64(0)
		}
		base.payload = nil
		base.rawLen = &v
		base.lenClass = 2
		return base, "top bit length"
	case 11:
		return encFrame{fin: true, op: 8, payload: g.data(126), lenClass: 0}, "control > 125"
	case 13, 14:
		// a control frame whose length field is 126 / 127 (extended length) although its payload is short:
		// RFC 6455 5.5 "all control frames MUST have a payload length of 125 bytes or less", and the
		// length field itself says more
		op := []int{8, 9, 10}[r.Intn(3)]
		p := g.data(r.Intn(20))
		if op == 8 {
			p = append([]byte{0x03, 0xe8}, p...)
		}
		return encFrame{fin: true, op: op, payload: p, lenClass: 1 + r.Intn(2)}, "control with extended length"
	default:
		base.rsv2, base.rsv3 = true, true
		base.op = 5
		return base, "several"
	}
}

func (g *rGen) build() {
	r := g.rng
	g.violAt = -1
	nmsg := 1 + r.Intn(4)
	violMsg := -1
	if g.opt.mode == "violate" {
		violMsg = r.Intn(nmsg + 1)
	}
	for mi := 0; mi < nmsg; mi++ {
		// controls between messages
		for r.Intn(3) == 0 {
			g.addFrame(g.ctlFrame(), -1)
		}
		if mi == violMsg {
			g.injectViolation(false)
			return
		}
		if g.opt.mode == "violate" && mi == violMsg-1 && r.Intn(2) == 0 {
			// violation inside a fragmented message: emit a non-final first fragment, then the violation
			t := 1 + r.Intn(2)
			p := g.data(r.Intn(50))
			g.msgs = append(g.msgs, gMsg{t: t, plain: p, raw: p, first: len(g.frames), last: -1})
			g.addFrame(encFrame{fin: false, op: t, payload: p}, mi)
			g.injectViolation(true)
			return
		}
		g.buildMessage(mi)
	}
	if g.opt.mode == "violate" {
		g.injectViolation(false)
		return
	}
	if g.tailBig {
		t := 1 + r.Intn(2)
		p := g.data(300 + r.Intn(3000))
		g.msgs = append(g.msgs, gMsg{t: t, plain: p, raw: p, first: len(g.frames), last: len(g.frames)})
		g.addFrame(encFrame{fin: true, op: t, payload: p}, nmsg)
		return
	}
	// optional close frame at the end
	if r.Intn(3) == 0 {
		g.addFrame(g.closeFrame(true), -1)
		// bytes after a close frame are never looked at
		if r.Intn(3) == 0 {
			g.addFrame(g.ctlFrame(), -1)
		}
	}
}

func (g *rGen) injectViolation(inMsg bool) {
	f, what := g.violation(inMsg)
	g.violAt = len(g.frames)
	g.viol = what
	g.topBit = what == "top bit length"
	if what == "wrong mask" {
		// encode with the opposite masking
		f.masked = !g.srv
		f.key = g.randKey()
		b := f.encode()
		gf := gFrame{enc: f, msg: -1, start: len(g.stream), end: len(g.stream) + len(b)}
		g.stream = append(g.stream, b...)
		g.frames = append(g.frames, gf)
	} else {
		g.addFrame(f, -1)
	}
	// something after it that must never surface
	g.addFrame(encFrame{fin: true, op: 9, payload: []byte("after")}, -1)
	g.addFrame(encFrame{fin: true, op: 2, payload: []byte("after-violation")}, -2)
}

func (g *rGen) chunking(b []byte) [][]byte {
	r := g.rng
	var out [][]byte
	if len(b) == 0 {
		return nil
	}
	switch r.Intn(6) {
	case 0: // as is
		out = append(out, b)
	case 1: // single bytes
		if len(b) > 3000 {
			out = append(out, b)
		} else {
			for i := range b {
				out = append(out, b[i:i+1])
			}
		}
	case 2: // halves
		h := len(b) / 2
		if h > 0 {
			out = append(out, b[:h])
		}
		out = append(out, b[h:])
	case 3: // frame aligned +-1
		prev := 0
		for _, f := range g.frames {
			e := f.end + r.Intn(3) - 1
			if e > len(b) {
				e = len(b)
			}
			if e > prev {
				out = append(out, b[prev:e])
				prev = e
			}
		}
		if prev < len(b) {
			out = append(out, b[prev:])
		}
	default: // random sizes
		mx := []int{3, 20, 200, 5000}[r.Intn(4)]
		if len(b) > 5000 && mx < 200 {
			mx = 200
		}
		for len(b) > 0 {
			n := 1 + r.Intn(1+mx)
			if n > len(b) {
				n = len(b)
			}
			out = append(out, b[:n])
			b = b[n:]
		}
	}
	return out
}

func b2i(b bool) int {
	if b {
		return 1
	}
	return 0
}

func (g *rGen) setup() {
	r := g.rng
	g.srv = r.Intn(2) == 0
	g.nego = g.opt.compress && r.Intn(3) > 0
	g.rbuf = rbufChoices[r.Intn(len(rbufChoices))]
	if g.opt.handlers {
		modes := []string{"", "rec", "rec", "fail7"}
		g.hp, g.hq, g.hc = modes[r.Intn(3)], modes[r.Intn(4)], modes[r.Intn(3)]
		if r.Intn(6) == 0 {
			g.hp = "fail5"
		}
		if r.Intn(8) == 0 {
			g.hc = "fail9"
		}
	}
	if g.opt.mode == "cut" && r.Intn(8) == 0 {
		// the whole stream arrives and then the transport ends (cleanly or not, possibly together with
		// the last bytes): every message is complete and must be so reported. Half of these end in a large
		// single-frame message read with large reads through a small bufio buffer (bufio's direct-read path).
		g.whole = true
		g.tailBig = r.Intn(2) == 0
		if g.tailBig {
			g.rbuf = []int{1, 125, 127, 200, 256}[r.Intn(5)]
		}
	}
	g.build()
	g.cut = len(g.stream)
	if g.opt.mode == "cut" {
		g.cut = r.Intn(len(g.stream) + 1)
		if g.whole {
			g.cut = len(g.stream)
		} else if r.Intn(4) == 0 && len(g.frames) > 0 {
			// cut near a frame boundary
			f := g.frames[r.Intn(len(g.frames))]
			g.cut = []int{f.start, f.hdrEnd, f.end, f.start + 1, f.end - 1}[r.Intn(5)]
			if g.cut < 0 {
				g.cut = 0
			}
			if g.cut > len(g.stream) {
				g.cut = len(g.stream)
			}
		}
	}
	g.t = newTConn(g.log)
	g.t.chunks = g.chunking(append([]byte(nil), g.stream[:g.cut]...))
	termTok := "eof"
	if g.opt.mode == "cut" || r.Intn(4) == 0 {
		switch r.Intn(3) {
		case 0:
			g.t.term = &tErr{id: 77}
			termTok = "err:77"
		case 1:
			g.t.term = &tErr{id: 78, timeout: true}
			termTok = "err:78"
		}
	}
	if g.opt.together && len(g.t.chunks) > 0 && (r.Intn(2) == 0 || g.tailBig) {
		g.t.together = true
	}
	if g.tailBig && r.Intn(2) == 0 {
		g.t.term, termTok = nil, "eof"
	}
	if g.opt.mode == "cut" && termTok != "eof" && g.cut < len(g.stream) && r.Intn(2) == 0 {
		// a transient fault: after the error the transport would deliver the rest of the stream. The
		// reader has latched the error and must never read again, so the model (whose terminal error is
		// sticky) sees the same script.
		g.t.after = g.chunking(append([]byte(nil), g.stream[g.cut:]...))
		g.sc.tag("transient")
	}
	if g.limitMode() {
		// choose a limit relative to some message size
		m := g.msgs[r.Intn(len(g.msgs))]
		L := int64(len(m.raw)) + int64(r.Intn(3)-1)
		if L < 1 {
			L = 1
		}
		g.limit = L
	}
	g.c = websocket.VerifNewConn(g.t, g.srv, g.rbuf, 64, nil, nil, nil)
	if g.nego {
		websocket.VerifSetCompression(g.c, nil)
	}
	if g.limit > 0 {
		g.c.SetReadLimit(g.limit)
	}
	mk := func(mode string, name string) func(string) error {
		if mode == "" {
			return nil
		}
		return func(s string) error {
			g.log.add("H:" + name + ":" + hx([]byte(s)))
			// keep the argument itself and a private copy: the handler's string must stay what it was
			g.kept = append(g.kept, s)
			g.keptCopy = append(g.keptCopy, string(append([]byte(nil), s...)))
			if strings.HasPrefix(mode, "fail") {
				var id int
				fmt.Sscanf(mode, "fail%d", &id)
				return &hErr{id}
			}
			return nil
		}
	}
	// default handlers are observed through the frames they write; application handlers log themselves.
	// To log default-handler invocations too, wrap the default (obtained from the getter) without changing it.
	// In a quarter of the all-default scenarios nothing is installed at all (or nil is, which the
	// documentation defines as "the default"): handler invocations are then invisible and the
	// model's H: events are dropped from the comparison; replies and delivered data are still judged.
	if g.hp == "" && g.hq == "" && g.hc == "" && g.rng.Intn(4) == 0 {
		g.bare = true
		g.sc.quietH = true
		g.sc.tag("bare-defaults")
		if g.rng.Intn(2) == 0 {
			g.c.SetPingHandler(nil)
			g.c.SetPongHandler(nil)
			g.c.SetCloseHandler(nil)
		}
	}
	if g.bare {
	} else if g.hp == "" {
		d := g.c.PingHandler()
		g.c.SetPingHandler(func(s string) error { g.log.add("H:ping:" + hx([]byte(s))); return d(s) })
	} else {
		g.c.SetPingHandler(mk(g.hp, "ping"))
	}
	if g.bare {
	} else if g.hq == "" {
		d := g.c.PongHandler()
		g.c.SetPongHandler(func(s string) error { g.log.add("H:pong:" + hx([]byte(s))); return d(s) })
	} else {
		g.c.SetPongHandler(mk(g.hq, "pong"))
	}
	if g.bare {
	} else if g.hc == "" {
		d := g.c.CloseHandler()
		g.c.SetCloseHandler(func(code int, s string) error {
			g.log.add(fmt.Sprintf("H:close:%d:%s", code, hx([]byte(s))))
			return d(code, s)
		})
	} else {
		mode := g.hc
		g.c.SetCloseHandler(func(code int, s string) error {
			g.log.add(fmt.Sprintf("H:close:%d:%s", code, hx([]byte(s))))
			if strings.HasPrefix(mode, "fail") {
				var id int
				fmt.Sscanf(mode, "fail%d", &id)
				return &hErr{id}
			}
			return nil
		})
	}
	line := fmt.Sprintf("conn c0 srv=%d wbuf=64 pool=0 nego=%d rbuf=%d", b2i(g.srv), b2i(g.nego), g.rbuf)
	if g.hp != "" {
		line += " hp=" + g.hp
	}
	if g.hq != "" {
		line += " hq=" + g.hq
	}
	if g.hc != "" {
		line += " hc=" + g.hc
	}
	if g.limit > 0 {
		line += fmt.Sprintf(" limit=%d", g.limit)
	}
	g.sc.emit(line, "ok")
	var parts []string
	for _, c := range g.t.chunks {
		parts = append(parts, hx(c))
	}
	cs := strings.Join(parts, ",")
	if cs == "" {
		cs = "-"
	}
	g.sc.emit(fmt.Sprintf("feed c0 %s term=%s tog=%d", cs, termTok, b2i(g.t.together)), "ok")
	if r.Intn(5) == 0 {
		// the application set a write deadline long ago: best-effort close / pong frames written by the
		// reader use their own deadline (now + writeWait) and must not depend on it
		d := []int{-1, -3, 2}[r.Intn(3)]
		g.c.SetWriteDeadline(tokTime(d))
		g.sc.emit(fmt.Sprintf("swd c0 %d", d), "ok")
		g.sc.tag("stale-write-deadline")
	}
	if g.opt.mode == "conform" && r.Intn(8) == 0 {
		// the application has already sent its own close frame and keeps reading (the closing handshake):
		// pings are still handed to the handler, whose best-effort pong is refused with ErrCloseSent and
		// must not disturb the read; the peer's close still reaches the close handler
		p := []byte{0x03, 0xe8}
		err := g.c.WriteControl(websocket.CloseMessage, p, time.Time{})
		g.sc.emit(fmt.Sprintf("wc c0 8 %s 0", hx(p)), g.line(resStr(err)))
		g.sc.tag("local-close-first")
		g.localClosed = true
	}
	if g.opt.wfaults && r.Intn(2) == 0 {
		k := r.Intn(4)
		g.t.faults[k] = fault{kind: "fail", id: 60 + k}
		g.sc.emit(fmt.Sprintf("fault c0 %d fail %d", k, 60+k), "ok")
		g.sc.tag("wfault")
	}
}

func (g *rGen) limitMode() bool { return g.opt.mode == "limit" && len(g.msgs) > 0 }

func (g *rGen) line(res string) string {
	evs := g.log.take()
	for _, e := range evs {
		if strings.HasPrefix(e, "H:") {
			g.hlog = append(g.hlog, e)
		}
	}
	if len(evs) == 0 {
		return res
	}
	return res + " | " + joinEvs(evs)
}

func (g *rGen) opNextReader() bool {
	defer func() {
		if p := recover(); p != nil {
			g.sc.emit("nr c0", g.line("panic"))
			g.sc.violate("NextReader panicked on network input: %v", p)
		}
	}()
	t, rd, err := g.c.NextReader()
	if err != nil {
		n := errName(err)
		g.nrFailed++
		g.t.apiFailed = true
		g.noteErr(n)
		if g.firstErr == "" {
			g.firstErr = n
		} else if n != g.firstErr {
			g.sc.violate("NextReader returned %q after it had returned %q (errors must be permanent)", n, g.firstErr)
		}
		g.sc.emit("nr c0", g.line("err "+n))
		return false
	}
	if g.firstErr != "" {
		g.sc.violate("NextReader succeeded after it had returned error %q", g.firstErr)
	}
	// compressed? the returned reader is the message reader itself iff not decompressing
	z := fmt.Sprintf("%T", rd) != "*websocket.messageReader"
	g.lastZ = z
	g.readers = append(g.readers, rd)
	g.rmsg = append(g.rmsg, g.nrOK)
	g.rdata = append(g.rdata, nil)
	g.rdone = append(g.rdone, false)
	mi := g.nrOK
	g.nrOK++
	if mi >= len(g.msgs) || (mi >= 0 && g.msgs[mi].t != t) {
		if !(mi < len(g.msgs)) {
			g.sc.violate("NextReader #%d returned a message (type %d) but the stream encodes only %d data messages before the end/violation", mi, t, len(g.msgs))
		} else {
			g.sc.violate("NextReader #%d returned type %d, the stream's message %d has type %d", mi, t, mi, g.msgs[mi].t)
		}
	}
	g.sc.emit("nr c0", g.line(fmt.Sprintf("ok %d v%d z=%d", t, len(g.readers)-1, b2i(z))))
	return true
}

// record what a reader delivered and judge it against the encoded message
// noteErr: which errors a stream without an injected violation may produce at all (C03: a conformant
// stream is decoded whatever the buffer size, fragmentation and interleaved controls)
func (g *rGen) noteErr(errn string) {
	if g.violAt >= 0 || g.nonMinCtl || errn == "ok" || errn == "eof" {
		return
	}
	bad := strings.HasPrefix(errn, "proto:") || errn == "internalUnexpectedData" ||
		(!g.nego && (strings.HasPrefix(errn, "other:") || errn == "ioUnexpectedEOF" || errn == "flateTail")) ||
		(errn == "readLimit" && g.limit <= 0) || errn == "closeSent" || errn == "writeTimeout"
	if bad && !g.badErrSeen {
		g.badErrSeen = true
		g.sc.violate("a stream of conformant frames made the reader fail with %q (read buffer %d, server=%v)", errn, g.rbuf, g.srv)
	}
}

func (g *rGen) delivered(h int, bs []byte, eof bool, errn string) {
	g.rdata[h] = append(g.rdata[h], bs...)
	g.noteErr(errn)
	mi := g.rmsg[h]
	if mi >= len(g.msgs) {
		return
	}
	m := g.msgs[mi]
	// C05: a message that had fully arrived before the failing transport read is reported complete,
	// never as cut off (EOF -> 1006 "unexpected EOF") or with the transport's error
	if (strings.HasPrefix(errn, "transport:") || strings.HasPrefix(errn, "close:1006:")) && g.violAt < 0 &&
		m.last >= 0 && g.frames[m.last].end <= g.cut && !(g.t.together && g.t.term != nil) && !m.compressed {
		g.sc.violate("message %d had fully arrived (its last byte is at offset %d, the transport ended at %d) but reading it failed with %s", mi, g.frames[m.last].end, g.cut, errn)
	}
	if !bytes.HasPrefix(m.plain, g.rdata[h]) {
		g.sc.violate("message %d: delivered bytes are not a prefix of the encoded payload (delivered %d bytes)", mi, len(g.rdata[h]))
	}
	if eof {
		g.rdone[h] = true
		if !bytes.Equal(m.plain, g.rdata[h]) {
			g.sc.violate("message %d: end of message signalled after %d of %d bytes", mi, len(g.rdata[h]), len(m.plain))
		}
		if m.last < 0 || g.frames[m.last].end > g.cut {
			g.knownOrViolate("C05", "F1", mi, "message %d reported complete although its final frame never arrived (stream cut at %d)", mi, g.cut)
		}
	}
}

func (g *rGen) knownOrViolate(prop, sig string, mi int, f string, a ...interface{}) {
	// F1: EOF delivered together with the last bytes of a non-final frame
	if sig == "F1" && g.t.together {
		g.sc.knownHit("F1-eof-together-nonfinal-frame", fmt.Sprintf(f, a...))
		return
	}
	g.sc.violate(f, a...)
}

func (g *rGen) opRead(h, k int) (bool, bool) {
	if g.isCompressed(h) {
		// byte counts of the decompressor are not modelled; compressed messages are read with "rac"
		return false, false
	}
	buf := make([]byte, k)
	n, err := g.readers[h].Read(buf)
	res := hx(buf[:n]) + " " + errName(err)
	g.delivered(h, buf[:n], err == io.EOF, errName(err))
	g.sc.emit(fmt.Sprintf("rd c0 v%d %d", h, k), g.line(res))
	if err != nil && err != io.EOF {
		g.rereadAfterError(h, true)
	}
	return true, err != nil
}

// rereadAfterError reads again from a message reader whose Read has failed: the error is final for
// that reader — no payload byte may come out of it afterwards (C04/C05/C06: nothing of a refused
// or cut message is delivered).
func (g *rGen) rereadAfterError(h int, modelled bool) {
	for _, k := range []int{1, 64} {
		buf := make([]byte, k)
		n, err := g.readers[h].Read(buf)
		if modelled {
			g.sc.emit(fmt.Sprintf("rd c0 v%d %d", h, k), g.line(hx(buf[:n])+" "+errName(err)))
		}
		if n > 0 || err == nil || err == io.EOF {
			g.sc.violate("reading again from a message reader that had failed returned %d bytes, %s (the failure must be final for that message)", n, errName(err))
		}
	}
	g.sc.tag("reread-after-error")
}

func (g *rGen) isCompressed(h int) bool {
	mi := g.rmsg[h]
	return mi < len(g.msgs) && g.msgs[mi].compressed
}

func (g *rGen) opReadAll(h, k int) {
	if g.isCompressed(h) {
		p, err := io.ReadAll(g.readers[h])
		mi := g.rmsg[h]
		m := g.msgs[mi]
		res := hx(p) + " " + errName(err)
		if err == nil {
			g.delivered(h, p, true, "ok")
		} else {
			g.delivered(h, p, false, errName(err))
		}
		g.sc.emit(fmt.Sprintf("rac c0 v%d z=%s plain=%s", h, hx(m.raw), hx(m.plain)), g.line(res))
		if err != nil {
			g.rereadAfterError(h, false)
		}
		return
	}
	var all []byte
	var err error
	buf := make([]byte, k)
	for {
		var n int
		n, err = g.readers[h].Read(buf)
		all = append(all, buf[:n]...)
		if err != nil {
			break
		}
	}
	en := "ok"
	if err != io.EOF {
		en = errName(err)
	}
	g.delivered(h, all, err == io.EOF, en)
	g.sc.emit(fmt.Sprintf("ra c0 v%d %d", h, k), g.line(hx(all)+" "+en))
	if err != io.EOF {
		g.rereadAfterError(h, true)
	}
}

func (g *rGen) opReadMessage() bool {
	panicked := false
	var t int
	var p []byte
	var err error
	func() {
		defer func() {
			if x := recover(); x != nil {
				panicked = true
			}
		}()
		t, p, err = g.c.ReadMessage()
	}()
	if panicked {
		g.sc.emit("rm c0", g.line("panic"))
		g.sc.violate("ReadMessage panicked on network input")
		return false
	}
	mi := g.nrOK
	env := ""
	if mi < len(g.msgs) && g.msgs[mi].compressed {
		env = fmt.Sprintf(" z=%s plain=%s", hx(g.msgs[mi].raw), hx(g.msgs[mi].plain))
	}
	if err != nil && t <= 0 {
		n := errName(err)
		g.nrFailed++ // ReadMessage's NextReader failed
		g.t.apiFailed = true
		if g.firstErr == "" {
			g.firstErr = n
		} else if n != g.firstErr {
			g.sc.violate("ReadMessage returned %q after NextReader had failed with %q", n, g.firstErr)
		}
		g.sc.emit("rm c0"+env, g.line("err "+n))
		return false
	}
	// a reader was created
	g.readers = append(g.readers, nil)
	g.rmsg = append(g.rmsg, mi)
	g.rdata = append(g.rdata, nil)
	g.rdone = append(g.rdone, false)
	g.nrOK++
	h := len(g.readers) - 1
	if mi >= len(g.msgs) {
		g.sc.violate("ReadMessage #%d returned a message but the stream encodes only %d", mi, len(g.msgs))
	} else if g.msgs[mi].t != t {
		g.sc.violate("ReadMessage #%d returned type %d, expected %d", mi, t, g.msgs[mi].t)
	}
	if err == nil {
		g.delivered(h, p, true, "ok")
		g.sc.emit("rm c0"+env, g.line(fmt.Sprintf("ok %d %s", t, hx(p))))
		return true
	}
	g.delivered(h, p, false, errName(err))
	g.sc.emit("rm c0"+env, g.line(fmt.Sprintf("err %s %d %s", errName(err), t, hx(p))))
	return false
}

var readSizes = []int{1, 2, 3, 7, 8, 9, 64, 511, 512, 513, 4096, 8192, 70000}

func (g *rGen) program() {
	r := g.rng
	exact := !g.t.together && g.opt.mode != "cut" // ReadMessage's buffer growth is not modelled; use it only where read sizes cannot matter
	for step := 0; step < 12; step++ {
		if exact && r.Intn(4) == 0 {
			if g.nrOK < len(g.msgs) && g.msgs[g.nrOK].compressed {
				g.fuzzy = true
			}
			if !g.opReadMessage() {
				break
			}
			continue
		}
		if !g.opNextReader() {
			break
		}
		h := len(g.readers) - 1
		if g.isCompressed(h) {
			g.fuzzy = true
		}
		choice := r.Intn(6)
		if g.fuzzy && (choice == 1 || choice == 2) {
			choice = 3
		}
		if g.tailBig {
			g.opReadAll(h, []int{4096, 8192, 70000}[r.Intn(3)])
			continue
		}
		switch choice {
		case 0:
			// abandon immediately
			g.sc.tag("abandon")
		case 1, 2:
			// a few partial reads, then abandon or finish
			nr := 1 + r.Intn(3)
			failed := false
			for i := 0; i < nr && !failed; i++ {
				ok, bad := g.opRead(h, readSizes[r.Intn(len(readSizes))])
				if !ok {
					break
				}
				failed = bad
			}
			if !failed && r.Intn(2) == 0 {
				g.opReadAll(h, readSizes[r.Intn(len(readSizes))])
			} else {
				g.sc.tag("partial")
			}
		default:
			g.opReadAll(h, readSizes[r.Intn(len(readSizes))])
		}
		if r.Intn(15) == 0 && len(g.readers) > 1 {
			// stale reader
			s := r.Intn(len(g.readers) - 1)
			if g.readers[s] != nil && !g.isCompressed(s) {
				buf := make([]byte, 5)
				n, err := g.readers[s].Read(buf)
				g.sc.emit(fmt.Sprintf("rd c0 v%d 5", s), g.line(hx(buf[:n])+" "+errName(err)))
				if n > 0 {
					g.sc.violate("a stale reader delivered %d bytes", n)
				}
			}
		}
	}
	// stickiness: two more calls — with the application's usual cleanup (Conn.Close) in between now and
	// then: closing the connection does not change what NextReader reports afterwards
	for i := 0; i < 2; i++ {
		if g.firstErr == "" {
			break
		}
		if r.Intn(4) == 0 {
			err := g.c.Close()
			g.sc.emit("cc c0", g.line(resStr(err)))
			g.sc.tag("close-between-failed-reads")
		}
		g.opNextReader()
	}
	// … and, now and then, all the way: the same error on every later call of NextReader, up to the
	// documented panic of the 1000th failed call — not earlier, whatever else was called on the
	// failed connection in between
	if g.firstErr != "" && g.nrFailed > 0 && r.Intn(30) == 0 {
		g.sc.tag("sticky-to-1000")
		for g.nrFailed < 1003 {
			panicked := false
			var err error
			func() {
				defer func() {
					if p := recover(); p != nil {
						panicked = true
					}
				}()
				_, _, err = g.c.NextReader()
			}()
			if panicked {
				g.sc.emit("nr c0", g.line("panic"))
				if g.nrFailed+1 != 1000 {
					g.sc.violate("NextReader panicked at failed call %d; the error is to be returned on every call up to the 1000th", g.nrFailed+1)
				}
				break
			}
			g.nrFailed++
			n := errName(err)
			if err == nil || n != g.firstErr {
				g.sc.violate("failed call %d of NextReader returned %q, the latched error is %q", g.nrFailed, n, g.firstErr)
				break
			}
			g.sc.emit("nr c0", g.line("err "+n))
		}
	}
}

// readAllCaps measures the capacities io.ReadAll's buffer goes through (Go runtime allocator
// behaviour): ReadAll asks its source for cap(b)-len(b) bytes each time.
type capProbe struct {
	caps  []int
	total int
	limit int
}

func (p *capProbe) Read(b []byte) (int, error) {
	if len(p.caps) == 0 || p.total+len(b) != p.caps[len(p.caps)-1] {
		p.caps = append(p.caps, p.total+len(b))
	}
	p.total += len(b)
	if p.total > p.limit {
		return len(b), io.EOF
	}
	return len(b), nil
}

var readAllCapsStr = func() string {
	p := &capProbe{limit: 600000}
	io.ReadAll(p)
	var parts []string
	for _, c := range p.caps {
		parts = append(parts, fmt.Sprint(c))
	}
	return strings.Join(parts, ",")
}()

// logDefaultHandlers wraps the default handlers (obtained through the public getters) so that
// their invocations appear in the event log; behaviour is unchanged.
func logDefaultHandlers(c *websocket.Conn, log *evlog) {
	dp := c.PingHandler()
	c.SetPingHandler(func(s string) error { log.add("H:ping:" + hx([]byte(s))); return dp(s) })
	dq := c.PongHandler()
	c.SetPongHandler(func(s string) error { log.add("H:pong:" + hx([]byte(s))); return dq(s) })
	dc := c.CloseHandler()
	c.SetCloseHandler(func(code int, s string) error {
		log.add(fmt.Sprintf("H:close:%d:%s", code, hx([]byte(s))))
		return dc(code, s)
	})
}

func runReaderScenario(seed int64, opt rOpts) *scenario {
	r := rand.New(rand.NewSource(seed))
	sc := &scenario{kind: "r", seed: seed}
	g := &rGen{rng: r, sc: sc, log: &evlog{}, opt: opt}
	ks := &keySource{keys: []byte{1, 2, 3, 4, 0xa1, 0xa2, 0xa3, 0xa4}}
	restore := websocket.VerifSetMaskRand(ks)
	defer restore()
	sc.emit("reset keys="+hx(ks.keys)+" caps="+readAllCapsStr, "ok")
	g.setup()
	g.program()
	sc.emit("wire c0", "ok "+hx(g.t.wire))
	sc.tag("mode:" + opt.mode)
	if g.viol != "" {
		sc.tag("viol:" + g.viol)
	}
	readerOracle(g)
	return sc
}

// readerOracle: property-level judgement of the implementation's observations, independent of the model.
func readerOracle(g *rGen) {
	sc := g.sc
	// handler log must be a prefix of the control frames in wire order (before a violation / cut)
	var want []string
	for i, f := range g.frames {
		if g.violAt >= 0 && i >= g.violAt {
			break
		}
		if f.end > g.cut {
			break
		}
		switch f.enc.op {
		case 9:
			want = append(want, "H:ping:"+hx(f.enc.payload))
		case 10:
			want = append(want, "H:pong:"+hx(f.enc.payload))
		case 8:
			code := 1005
			text := []byte{}
			if len(f.enc.payload) >= 2 {
				code = int(f.enc.payload[0])<<8 | int(f.enc.payload[1])
				text = f.enc.payload[2:]
			}
			want = append(want, fmt.Sprintf("H:close:%d:%s", code, hx(text)))
		}
		if f.enc.op == 8 {
			break
		}
	}
	if len(g.hlog) > len(want) {
		sc.violate("handlers were invoked %d times, the stream has only %d control frames before its end/violation: extra %v", len(g.hlog), len(want), g.hlog[len(want):])
	} else {
		for i := range g.hlog {
			if g.hlog[i] != want[i] {
				sc.violate("handler call %d was %s, wire order says %s", i, g.hlog[i], want[i])
				break
			}
		}
	}
	// every control frame located before the end of a message that was reported complete must have been handled
	lastDone := -1
	for h, done := range g.rdone {
		if done && g.rmsg[h] < len(g.msgs) && g.msgs[g.rmsg[h]].last > lastDone {
			lastDone = g.msgs[g.rmsg[h]].last
		}
	}
	need := 0
	for i, f := range g.frames {
		if i > lastDone {
			break
		}
		if f.enc.op >= 8 {
			need++
		}
	}
	if g.bare {
		// invisible handlers: take the calls the wire order prescribes up to the last complete message
		k := need
		if k > len(want) {
			k = len(want)
		}
		g.hlog = append([]string(nil), want[:k]...)
	}
	if len(g.hlog) < need {
		sc.violate("only %d handler calls although %d control frames precede the end of a message reported complete", len(g.hlog), need)
	}
	// replies written by default handlers / protocol errors
	frames, rest, bad := rfcDecode(g.t.wire)
	if bad != "" || len(rest) > 0 {
		if len(g.t.faults) == 0 {
			sc.violate("reader-side writes are not whole frames: %s (%d stray bytes)", bad, len(rest))
		}
	}
	for _, p := range rfcCheck(frames, !g.srv, g.nego) {
		sc.violate("reader-side writes violate RFC 6455: %s", p)
	}
	for i, f := range frames {
		if f.op == 8 && i != len(frames)-1 {
			sc.violate("a frame was written after a close frame")
		}
		// close frames written by the library itself (echo, 1002, 1009): the reserved codes 1005, 1006
		// and 1015 never appear on the wire (RFC 6455 7.4.1); a close without status is echoed without one
		if f.op == 8 && !g.localClosed {
			if len(f.payload) == 1 {
				sc.violate("the library wrote a close frame with a 1-byte body")
			}
			if len(f.payload) >= 2 {
				if code := int(f.payload[0])<<8 | int(f.payload[1]); code == 1005 || code == 1006 || code == 1015 {
					sc.violate("the library wrote a close frame with the reserved status %d", code)
				}
			}
		}
	}
	if len(g.t.faults) == 0 {
		// default ping handler: pong with identical payload, in order
		if g.hp == "" {
			var pings, pongs []string
			for _, e := range g.hlog {
				if strings.HasPrefix(e, "H:ping:") {
					pings = append(pings, strings.TrimPrefix(e, "H:ping:"))
				}
			}
			closed := false
			for _, f := range frames {
				if f.op == 10 {
					pongs = append(pongs, hx(f.payload))
				}
				if f.op == 8 {
					closed = true
				}
			}
			if g.bare {
				// the handler calls are invisible: the pongs must echo the pings of the stream in wire order
				// (a prefix of them — how far the reader got — covering at least the complete messages)
				var all []string
				for _, e := range want {
					if strings.HasPrefix(e, "H:ping:") {
						all = append(all, strings.TrimPrefix(e, "H:ping:"))
					}
				}
				okPrefix := len(pongs) <= len(all) && len(pongs) >= len(pings)
				for i := 0; okPrefix && i < len(pongs); i++ {
					okPrefix = pongs[i] == all[i]
				}
				if !closed && !okPrefix {
					sc.violate("default ping handler (nothing installed): the stream's pings are %v, the pongs written are %v", all, pongs)
				}
			} else if !closed && strings.Join(pings, ",") != strings.Join(pongs, ",") {
				sc.violate("default ping handler: pings %v answered by pongs %v", pings, pongs)
			}
		}
		// violation: a 1002 close must have been written (except top-bit length) unless a close was already sent
		if g.violAt >= 0 && g.firstErr != "" && g.frames[g.violAt].hdrEnd <= g.cut && g.reachedViolation() {
			has1002 := false
			anyClose := false
			otherCode := -1
			for _, f := range frames {
				if f.op == 8 {
					anyClose = true
					if len(f.payload) >= 2 && int(f.payload[0])<<8|int(f.payload[1]) == 1002 {
						has1002 = true
					} else if len(f.payload) >= 2 {
						otherCode = int(f.payload[0])<<8 | int(f.payload[1])
					}
				}
			}
			if !g.topBit && !has1002 && !anyClose {
				sc.violate("framing violation (%s) was not answered with a 1002 close frame", g.viol)
			}
			if !g.topBit && !has1002 && anyClose && !g.localClosed {
				// the only close frame this reader can have written is the answer to the violation
				sc.violate("framing violation (%s) was answered with a close frame of status %d, not 1002", g.viol, otherCode)
			}
		}
	}
	// C06: read limit (judged on wire sizes, independent of the model)
	if g.limit > 0 && g.violAt < 0 {
		has1009 := false
		for _, f := range frames {
			if f.op == 8 && len(f.payload) >= 2 && int(f.payload[0])<<8|int(f.payload[1]) == 1009 {
				has1009 = true
			}
		}
		for h := range g.rdata {
			mi := g.rmsg[h]
			if mi >= len(g.msgs) {
				continue
			}
			raw := int64(len(g.msgs[mi].raw))
			if g.rdone[h] && raw > g.limit {
				sc.violate("message %d has %d payload bytes on the wire and was read in full although the read limit is %d", mi, raw, g.limit)
			}
			if !g.msgs[mi].compressed && int64(len(g.rdata[h])) > g.limit {
				sc.violate("%d bytes of message %d were delivered although the read limit is %d", len(g.rdata[h]), mi, g.limit)
			}
		}
		if g.firstErr == "readLimit" {
			exceeded := false
			for mi := 0; mi < len(g.msgs) && mi <= g.nrOK; mi++ {
				if int64(len(g.msgs[mi].raw)) > g.limit {
					exceeded = true
				}
			}
			if !exceeded && g.cut == len(g.stream) {
				sc.violate("ErrReadLimit although every message received so far is within the limit %d (what the application did with earlier messages must not matter)", g.limit)
			}
			if len(g.t.faults) == 0 && !has1009 {
				anyClose := false
				for _, f := range frames {
					if f.op == 8 {
						anyClose = true
					}
				}
				if !anyClose {
					sc.violate("read limit %d exceeded but no close frame with status 1009 was sent", g.limit)
				}
			}
		}
	}
	// C08: a handler receives the exact payload — also after it has returned (an application may keep it)
	for i := range g.kept {
		if g.kept[i] != g.keptCopy[i] {
			sc.violate("the payload handed to a handler changed after the handler returned: it was %x, it now reads %x (it aliases the read buffer)", g.keptCopy[i], g.kept[i])
			break
		}
	}
	// C05: once NextReader has returned an error the reader never reads from the transport again (the
	// error is permanent even if the fault was transient and the transport has more bytes)
	if g.t.readAfterErr > 0 {
		sc.violate("the reader read from the transport again (%d reads) after NextReader had returned %q: the error is not permanent", g.t.readAfterErr, g.firstErr)
	}
	// after a violation nothing of it or after it may surface
	for h, d := range g.rdata {
		if g.rmsg[h] >= len(g.msgs) && len(d) > 0 {
			sc.violate("data delivered from a frame at or after the violation/end: %q", trunc(string(d), 40))
		}
	}
}

// the read program got as far as the violating frame (all earlier data messages were opened)
func (g *rGen) reachedViolation() bool {
	if g.firstErr == "" || g.violAt < 0 {
		return false
	}
	// an application handler that fails, or a close frame, before the violation ends the reading earlier
	for i, f := range g.frames {
		if i >= g.violAt {
			break
		}
		switch f.enc.op {
		case 9:
			if strings.HasPrefix(g.hp, "fail") {
				return false
			}
		case 10:
			if strings.HasPrefix(g.hq, "fail") {
				return false
			}
		case 8:
			return false
		}
	}
	return true
}

// ---------------------------------------------------------------------------
// fuzz stream (C07): arbitrary / mutated byte strings as the peer's stream. The model predicts the
// exact outcome (incl. "panic"); the oracle checks no panic, no hang, proportional allocation.
// ---------------------------------------------------------------------------

// A long run of empty messages read through JoinMessages with an empty terminator: memory (the
// goroutine's stack included) stays bounded however many messages follow one another (C07: no
// resource use out of proportion to the input). Oracle only.
func runManyEmptyJoinScenario(seed int64) *scenario {
	r := rand.New(rand.NewSource(seed))
	sc := &scenario{kind: "rfuzz", seed: seed}
	srv := r.Intn(2) == 0
	n := 100000 + r.Intn(50000)
	one := encFrame{fin: true, op: 1 + r.Intn(2)}
	if srv {
		one.masked, one.key = true, [4]byte{1, 2, 3, 4}
	}
	fb := one.encode()
	stream := bytes.Repeat(fb, n)
	t := newTConn(&evlog{})
	t.quiet = true
	t.chunks = [][]byte{stream}
	c := websocket.VerifNewConn(t, srv, 4096, 64, nil, nil, nil)
	jr := websocket.JoinMessages(c, "")
	type res struct {
		grew uint64
		err  error
		got  int
		pan  string
	}
	ch := make(chan res, 1)
	go func() {
		var x res
		defer func() {
			if p := recover(); p != nil {
				x.pan = fmt.Sprint(p)
			}
			ch <- x
		}()
		var m0, m1 runtime.MemStats
		runtime.ReadMemStats(&m0)
		buf := make([]byte, 4096)
		for {
			k, err := jr.Read(buf)
			x.got += k
			if err != nil {
				x.err = err
				break
			}
		}
		runtime.ReadMemStats(&m1)
		if m1.StackInuse > m0.StackInuse {
			x.grew = m1.StackInuse - m0.StackInuse
		}
	}()
	x := <-ch
	if x.pan != "" {
		sc.violate("JoinMessages over %d empty messages panicked: %s", n, x.pan)
	}
	if x.got != 0 {
		sc.violate("JoinMessages over %d empty messages delivered %d bytes", n, x.got)
	}
	if x.err == nil || x.err == io.EOF {
		sc.violate("JoinMessages over %d empty messages and then EOF ended with %v", n, x.err)
	}
	if x.grew > 4<<20 {
		sc.violate("reading %d empty messages (%d bytes of frames) through JoinMessages grew the stack in use by %d bytes", n, len(stream), x.grew)
	}
	sc.emit(fmt.Sprintf("sched many-empty-join n=%d srv=%d", n, b2i(srv)), "ok")
	sc.tag("many-empty-join")
	return sc
}

func runFuzzScenario(seed int64) *scenario {
	r := rand.New(rand.NewSource(seed))
	sc := &scenario{kind: "rfuzz", seed: seed}
	g := &rGen{rng: r, sc: sc, log: &evlog{}, opt: rOpts{mode: "conform", smallOnly: true, handlers: r.Intn(2) == 0}}
	ks := &keySource{keys: []byte{9, 8, 7, 6}}
	restore := websocket.VerifSetMaskRand(ks)
	defer restore()
	sc.emit("reset keys="+hx(ks.keys)+" caps="+readAllCapsStr, "ok")
	// build a conformant stream, then damage it
	g.srv = r.Intn(2) == 0
	g.nego = false
	g.rbuf = rbufChoices[r.Intn(len(rbufChoices))]
	g.build()
	b := append([]byte(nil), g.stream...)
	switch r.Intn(8) {
	case 7: // a control-frame header that is wrong in every way at once
		if len(b) >= 2 {
			i := 0
			if len(g.frames) > 0 {
				i = g.frames[r.Intn(len(g.frames))].start
			}
			b0 := byte(0x70 | []int{8, 9, 10}[r.Intn(3)]) // FIN clear, RSV1-3 set, control opcode
			b1 := byte(126 + r.Intn(2))
			if !g.srv {
				b1 |= 0x80 // masked frame to a client / unmasked to a server: wrong for the role
			}
			hdr := []byte{b0, b1, 0, 0, 0, 0, 0, 0, 1, 0}
			b = append(append(append([]byte(nil), b[:i]...), hdr...), b[i+2:]...)
		}
	case 0: // pure noise
		b = make([]byte, r.Intn(300))
		r.Read(b)
	case 1: // bit flips
		for i := 0; i < 1+r.Intn(4) && len(b) > 0; i++ {
			b[r.Intn(len(b))] ^= 1 << uint(r.Intn(8))
		}
	case 2: // random header bytes at frame starts
		for _, f := range g.frames {
			if r.Intn(3) == 0 && f.start+1 < len(b) {
				b[f.start] = byte(r.Intn(256))
				b[f.start+1] = byte(r.Intn(256))
			}
		}
	case 3: // huge declared lengths
		if len(b) >= 2 {
			i := 0
			if len(g.frames) > 0 {
				i = g.frames[r.Intn(len(g.frames))].start
			}
			hdr := []byte{b[i], b[i+1]&0x80 | 127}
			var l [8]byte
			switch r.Intn(5) {
			case 0:
				l = [8]byte{0x7f, 0xff, 0xff, 0xff, 0xff, 0xff, 0xff, 0xff}
			case 1:
				l = [8]byte{0x80, 0, 0, 0, 0, 0, 0, 0}
			case 2:
				if r.Intn(2) == 0 {
					// a "small negative" length: 2^64 - k
					k := uint64(1 + r.Intn(300))
					v := ^uint64(0) - k + 1
					for i := 0; i < 8; i++ {
						l[i] = byte(v >> uint(56-8*i))
					}
					break
				}
				// a large but allocatable claim: 16 MiB .. 128 MiB
				l = [8]byte{0, 0, 0, 0, byte(1 << uint(r.Intn(4))), 0, 0, 0}
			default:
				r.Read(l[:])
				l[0] &= 0x7f
				if r.Intn(2) == 0 {
					l[0], l[1], l[2], l[3] = 0, 0, 0, 0 // below 4 GiB
					l[4] &= 0x0f
				}
			}
			b = append(append(append([]byte(nil), b[:i]...), append(hdr, l[:]...)...), b[i+2:]...)
		}
	case 4: // truncation
		if len(b) > 0 {
			b = b[:r.Intn(len(b))]
		}
	case 5: // insertion of noise
		if len(b) > 0 {
			i := r.Intn(len(b))
			n := make([]byte, 1+r.Intn(10))
			r.Read(n)
			b = append(append(append([]byte(nil), b[:i]...), n...), b[i:]...)
		}
	}
	g.stream = b
	g.frames = nil
	g.cut = len(b)
	g.t = newTConn(g.log)
	g.t.chunks = g.chunking(append([]byte(nil), b...))
	limit := int64(0)
	if r.Intn(3) == 0 {
		limit = int64(1 + r.Intn(600))
	}
	g.c = websocket.VerifNewConn(g.t, g.srv, g.rbuf, 64, nil, nil, nil)
	if limit > 0 {
		g.c.SetReadLimit(limit)
	}
	logDefaultHandlers(g.c, g.log)
	line := fmt.Sprintf("conn c0 srv=%d wbuf=64 pool=0 nego=0 rbuf=%d", b2i(g.srv), g.rbuf)
	if limit > 0 {
		line += fmt.Sprintf(" limit=%d", limit)
	}
	sc.emit(line, "ok")
	var parts []string
	for _, c := range g.t.chunks {
		parts = append(parts, hx(c))
	}
	cs := strings.Join(parts, ",")
	if cs == "" {
		cs = "-"
	}
	sc.emit(fmt.Sprintf("feed c0 %s term=eof tog=0", cs), "ok")
	var ms0, ms1 runtimeMem
	ms0.read()
	delivered := 0
	firstErr := ""
	okMsgs := 0
	for i := 0; i < 30; i++ {
		var t int
		var p []byte
		var err error
		pan := ""
		func() {
			defer func() {
				if x := recover(); x != nil {
					pan = fmt.Sprint(x)
				}
			}()
			t, p, err = g.c.ReadMessage()
		}()
		if pan != "" {
			sc.emit("rm c0", g.line("panic"))
			sc.violate("ReadMessage panicked on network input: %s", pan)
			break
		}
		delivered += len(p)
		if err != nil {
			firstErr = errName(err)
			if t > 0 {
				sc.emit("rm c0", g.line(fmt.Sprintf("err %s %d %s", errName(err), t, hx(p))))
			} else {
				sc.emit("rm c0", g.line("err "+errName(err)))
			}
			break
		}
		okMsgs++
		sc.emit("rm c0", g.line(fmt.Sprintf("ok %d %s", t, hx(p))))
	}
	ms1.read()
	if delivered > len(b) {
		sc.violate("delivered %d payload bytes from a %d-byte stream", delivered, len(b))
	}
	// C06 on arbitrary streams: if, walking the frame headers independently, the first irregular event is a
	// data frame whose claimed length takes the message's running sum over the limit, the first error
	// the application sees is ErrReadLimit
	if k, before := firstEvent(b, g.srv, limit); k == "topbit" || k == "limit" {
		// C06: the frame is refused where it stands: ErrReadLimit, and no message that contains it is delivered
		if okMsgs > before {
			sc.violate("%d messages were delivered although only %d are complete before the data frame with a %s length", okMsgs, before, map[string]string{"topbit": "top-bit (negative as int64)", "limit": "limit-breaking"}[k])
		}
		if firstErr != "" && firstErr != "readLimit" && okMsgs == before {
			sc.violate("a data frame with a %s length was answered with %q instead of ErrReadLimit", k, firstErr)
		}
		if firstErr == "readLimit" && okMsgs == before {
			// ... and the peer is told: a close frame with status 1009, whatever the sizes involved
			wf, _, _ := rfcDecode(g.t.wire)
			has1009 := false
			for _, f := range wf {
				if f.op == 8 && len(f.payload) >= 2 && int(f.payload[0])<<8|int(f.payload[1]) == 1009 {
					has1009 = true
				}
			}
			if !has1009 {
				sc.violate("a data frame with a %s length was refused with ErrReadLimit but no close frame with status 1009 was sent", k)
			}
		}
	}
	if limit > 0 && firstErr != "" && limitIsFirstEvent(b, g.srv, limit) && firstErr != "readLimit" {
		sc.violate("a frame takes the running sum of its message over the read limit %d before anything else is wrong with the stream, but the reader reported %q instead of ErrReadLimit", limit, firstErr)
	}
	if d := ms1.total - ms0.total; d > uint64(64*len(b)+(1<<20)) {
		sc.violate("receiving a %d-byte stream allocated %d bytes", len(b), d)
	}
	sc.emit("wire c0", "ok "+hx(g.t.wire))
	return sc
}

// firstEvent walks the frame headers of a peer stream (independently of the package and of the model)
// and classifies the first thing that is not a complete, valid frame:
//
//	"limit"  a data frame whose claimed length makes the running sum of its message exceed limit (limit > 0)
//	"topbit" a data frame whose 64-bit length has the top bit set
//	"other"  anything else (protocol violation, close frame, truncation, end of stream)
//
// together with the number of complete data messages before it.
func firstEvent(b []byte, srv bool, limit int64) (kind string, msgsBefore int) {
	pos := 0
	inMsg := false
	sum := new(big.Int)
	lim := big.NewInt(limit)
	for {
		if pos+2 > len(b) {
			return "other", msgsBefore
		}
		b0, b1 := b[pos], b[pos+1]
		fin, rsv, op := b0&0x80 != 0, b0&0x70, int(b0&0x0f)
		masked, l7 := b1&0x80 != 0, int(b1&0x7f)
		if rsv != 0 || masked != srv {
			return "other", msgsBefore
		}
		dataOK := (op == 1 || op == 2) && !inMsg || op == 0 && inMsg
		h := 2
		n := new(big.Int)
		switch l7 {
		case 126:
			if pos+4 > len(b) {
				return "other", msgsBefore
			}
			n.SetUint64(uint64(b[pos+2])<<8 | uint64(b[pos+3]))
			h = 4
		case 127:
			if pos+10 > len(b) {
				return "other", msgsBefore
			}
			if b[pos+2]&0x80 != 0 {
				if dataOK {
					return "topbit", msgsBefore
				}
				return "other", msgsBefore
			}
			var v uint64
			for i := 0; i < 8; i++ {
				v = v<<8 | uint64(b[pos+2+i])
			}
			n.SetUint64(v)
			h = 10
		default:
			n.SetInt64(int64(l7))
		}
		if masked {
			h += 4
		}
		switch {
		case op == 8:
			return "other", msgsBefore
		case op == 9 || op == 10:
			if !fin || l7 > 125 {
				return "other", msgsBefore
			}
		case op == 1 || op == 2:
			if inMsg {
				return "other", msgsBefore
			}
			sum.SetInt64(0)
		case op == 0:
			if !inMsg {
				return "other", msgsBefore
			}
		default:
			return "other", msgsBefore
		}
		if op <= 2 {
			sum.Add(sum, n)
			if pos+h > len(b) {
				return "other", msgsBefore // the header itself (mask key) is cut
			}
			if limit > 0 && sum.Cmp(lim) > 0 {
				return "limit", msgsBefore
			}
			inMsg = !fin
		}
		if pos+h > len(b) || !n.IsInt64() || n.Int64() > int64(len(b)-pos-h) {
			return "other", msgsBefore // an earlier frame is cut short
		}
		pos += h + int(n.Int64())
		if op <= 2 && fin {
			msgsBefore++
		}
	}
}

func limitIsFirstEvent(b []byte, srv bool, limit int64) bool {
	k, _ := firstEvent(b, srv, limit)
	return k == "limit"
}
