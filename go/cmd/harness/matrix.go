package main

import (
	"bufio"
	"context"
	"crypto/ecdsa"
	"crypto/elliptic"
	"crypto/rand"
	"crypto/tls"
	"crypto/x509"
	"crypto/x509/pkix"
	"encoding/base64"
	"fmt"
	"io"
	"math/big"
	"net"
	"net/http"
	"net/url"
	"strings"
	"sync"
	"time"

	"github.com/gorilla/websocket"
)

// ---------------------------------------------------------------------------
// C18 / C16: the dial-path matrix with in-process proxies and backends over net.Pipe.
// {no proxy, http, https, socks5} x {ws, wss} x {NetDial, NetDialContext, NetDialTLSContext}
// x {no credentials, user, user:password} x {certificate valid / for another host / untrusted}
// ---------------------------------------------------------------------------

type pki struct {
	pool                               *x509.CertPool
	backendOK, backendOther, backendUT tls.Certificate
	proxyOK                            tls.Certificate
}

var thePKI = func() *pki {
	mk := func(cn string, parent *x509.Certificate, pkey *ecdsa.PrivateKey, isCA bool, dns ...string) (tls.Certificate, *x509.Certificate, *ecdsa.PrivateKey) {
		key, _ := ecdsa.GenerateKey(elliptic.P256(), rand.Reader)
		serial, _ := rand.Int(rand.Reader, big.NewInt(1<<62))
		tmpl := &x509.Certificate{SerialNumber: serial, Subject: pkix.Name{CommonName: cn}, NotBefore: time.Now().Add(-time.Hour),
			NotAfter: time.Now().Add(240 * time.Hour), KeyUsage: x509.KeyUsageDigitalSignature | x509.KeyUsageCertSign,
			ExtKeyUsage: []x509.ExtKeyUsage{x509.ExtKeyUsageServerAuth}, BasicConstraintsValid: true, IsCA: isCA, DNSNames: dns}
		p, pk := tmpl, key
		if parent != nil {
			p, pk = parent, pkey
		}
		der, err := x509.CreateCertificate(rand.Reader, tmpl, p, &key.PublicKey, pk)
		if err != nil {
			panic(err)
		}
		c, _ := x509.ParseCertificate(der)
		return tls.Certificate{Certificate: [][]byte{der}, PrivateKey: key}, c, key
	}
	_, ca, cakey := mk("verif test CA", nil, nil, true)
	_, ca2, ca2key := mk("untrusted CA", nil, nil, true)
	p := &pki{pool: x509.NewCertPool()}
	p.pool.AddCert(ca)
	p.backendOK, _, _ = mk("backend.test", ca, cakey, false, "backend.test")
	p.backendOther, _, _ = mk("other.test", ca, cakey, false, "other.test", "proxy.test")
	p.backendUT, _, _ = mk("backend.test", ca2, ca2key, false, "backend.test")
	p.proxyOK, _, _ = mk("proxy.test", ca, cakey, false, "proxy.test")
	return p
}()

type mxObs struct {
	unarmed    int // dialed connections on which no deadline was ever armed
	mu         sync.Mutex
	dials      []string // "<fn> <addr>"
	connects   []string // CONNECT targets seen by the http(s) proxy, with " auth=<value>"
	socks      []string // targets seen by the socks5 proxy, with " user=<u> pass=<p>"
	backendSNI []string // SNI of TLS handshakes that reached the backend
	backendTLS int      // completed TLS handshakes at the backend
	upgrades   int      // websocket requests that reached the backend
	upgradeTLS []bool   // were they inside TLS
	proxyTLS   int
	serverErrs []string
	leftOpen   int // client-side ends of dialed connections that the Dialer never closed (counted when Dial returns)
	selfClosed int // … and those it closed
}

func (o *mxObs) add(f func()) { o.mu.Lock(); f(); o.mu.Unlock() }

type mxCfg struct {
	proxy          string // "" | http | https | socks5
	wss            bool
	nd, ndc, ndtls bool
	cred           string // "" | user | userpass | userempty
	cert           string // ok | other | untrusted
	skipVerify     bool
	hostHdr        string // Host entry in the caller's request header ("" = none); oracle-only variant
	longPass       int    // > 0: the proxy password is this many characters long (cred = userpass); oracle-only variant
	preTLS         bool   // NetDialContext returns a *tls.Conn of its own, authenticated as other.test; oracle-only variant
}

func longPassword(n int) string { return strings.Repeat("t0k3n-", n/6+1)[:n] }

func serveBackend(c net.Conn, o *mxObs, cfg mxCfg, done *sync.WaitGroup) {
	defer done.Done()
	defer c.Close()
	inTLS := false
	if cfg.wss {
		cert := thePKI.backendOK
		switch cfg.cert {
		case "other":
			cert = thePKI.backendOther
		case "untrusted":
			cert = thePKI.backendUT
		}
		tc := tls.Server(c, &tls.Config{Certificates: []tls.Certificate{cert}, GetConfigForClient: func(h *tls.ClientHelloInfo) (*tls.Config, error) {
			o.add(func() { o.backendSNI = append(o.backendSNI, h.ServerName) })
			return nil, nil
		}})
		tc.SetDeadline(time.Now().Add(30 * time.Second))
		if err := tc.Handshake(); err != nil {
			o.add(func() { o.serverErrs = append(o.serverErrs, "backend tls: "+err.Error()) })
			return
		}
		o.add(func() { o.backendTLS++ })
		c = tc
		inTLS = true
	}
	c.SetDeadline(time.Now().Add(30 * time.Second))
	br := bufio.NewReader(c)
	req, err := http.ReadRequest(br)
	if err != nil {
		return
	}
	o.add(func() { o.upgrades++; o.upgradeTLS = append(o.upgradeTLS, inTLS) })
	fmt.Fprintf(c, "HTTP/1.1 101 Switching Protocols\r\nUpgrade: websocket\r\nConnection: Upgrade\r\nSec-WebSocket-Accept: %s\r\n\r\n", acceptFor(req.Header.Get("Sec-Websocket-Key")))
	io.Copy(io.Discard, br)
}

func serveProxy(c net.Conn, o *mxObs, cfg mxCfg, done *sync.WaitGroup) {
	if cfg.proxy == "https" {
		tc := tls.Server(c, &tls.Config{Certificates: []tls.Certificate{thePKI.proxyOK}})
		tc.SetDeadline(time.Now().Add(30 * time.Second))
		if err := tc.Handshake(); err != nil {
			o.add(func() { o.serverErrs = append(o.serverErrs, "proxy tls: "+err.Error()) })
			c.Close()
			done.Done()
			return
		}
		o.add(func() { o.proxyTLS++ })
		c = tc
	}
	c.SetDeadline(time.Now().Add(30 * time.Second))
	if cfg.proxy == "socks5" {
		serveSocks(c, o, cfg, done)
		return
	}
	br := bufio.NewReader(c)
	req, err := http.ReadRequest(br)
	if err != nil {
		c.Close()
		done.Done()
		return
	}
	o.add(func() {
		o.connects = append(o.connects, fmt.Sprintf("%s %s auth=%s", req.Method, req.Host, req.Header.Get("Proxy-Authorization")))
	})
	if req.Method != "CONNECT" {
		c.Close()
		done.Done()
		return
	}
	io.WriteString(c, "HTTP/1.1 200 Connection established\r\n\r\n")
	c.SetDeadline(time.Time{})
	serveBackend(&bufConn{Conn: c, r: br}, o, cfg, done)
}

type bufConn struct {
	net.Conn
	r *bufio.Reader
}

func (b *bufConn) Read(p []byte) (int, error) { return b.r.Read(p) }

func serveSocks(c net.Conn, o *mxObs, cfg mxCfg, done *sync.WaitGroup) {
	fail := func() { c.Close(); done.Done() }
	hdr := make([]byte, 2)
	if _, err := io.ReadFull(c, hdr); err != nil || hdr[0] != 5 {
		fail()
		return
	}
	methods := make([]byte, hdr[1])
	io.ReadFull(c, methods)
	user, pass := "", ""
	useAuth := false
	for _, m := range methods {
		if m == 2 {
			useAuth = true
		}
	}
	if useAuth {
		c.Write([]byte{5, 2})
		b := make([]byte, 2)
		io.ReadFull(c, b)
		u := make([]byte, b[1])
		io.ReadFull(c, u)
		pl := make([]byte, 1)
		io.ReadFull(c, pl)
		p := make([]byte, pl[0])
		io.ReadFull(c, p)
		user, pass = string(u), string(p)
		c.Write([]byte{1, 0})
	} else {
		c.Write([]byte{5, 0})
	}
	rq := make([]byte, 4)
	if _, err := io.ReadFull(c, rq); err != nil {
		fail()
		return
	}
	target := ""
	switch rq[3] {
	case 3:
		l := make([]byte, 1)
		io.ReadFull(c, l)
		h := make([]byte, l[0])
		io.ReadFull(c, h)
		target = string(h)
	case 1:
		h := make([]byte, 4)
		io.ReadFull(c, h)
		target = net.IP(h).String()
	case 4:
		h := make([]byte, 16)
		io.ReadFull(c, h)
		target = "[" + net.IP(h).String() + "]"
	}
	pb := make([]byte, 2)
	io.ReadFull(c, pb)
	target = fmt.Sprintf("%s:%d", target, int(pb[0])<<8|int(pb[1]))
	o.add(func() {
		o.socks = append(o.socks, fmt.Sprintf("%s user=%s pass=%s auth=%v", target, user, pass, useAuth))
	})
	c.Write([]byte{5, 0, 0, 1, 0, 0, 0, 0, 0, 0})
	c.SetDeadline(time.Time{})
	serveBackend(c, o, cfg, done)
}

func runMatrixCell(cfg mxCfg) (o *mxObs, conn *websocket.Conn, err error, panicked string) {
	o = &mxObs{}
	var wg sync.WaitGroup
	backendAddr := "backend.test:80"
	if cfg.wss {
		backendAddr = "backend.test:443"
	}
	proxyAddr := map[string]string{"http": "proxy.test:8080", "https": "proxy.test:8443", "socks5": "proxy.test:1080"}[cfg.proxy]
	var raws []net.Conn
	pipeTo := func(fn, addr string) (net.Conn, error) {
		o.add(func() { o.dials = append(o.dials, fn+" "+addr) })
		cl, sv := asyncPipe()
		raws = append(raws, cl, sv)
		wg.Add(1)
		switch addr {
		case backendAddr:
			go serveBackend(sv, o, cfg, &wg)
		case proxyAddr:
			go serveProxy(sv, o, cfg, &wg)
		default:
			wg.Done()
			cl.Close()
			sv.Close()
			return nil, fmt.Errorf("unexpected dial target %q", addr)
		}
		return cl, nil
	}
	d := &websocket.Dialer{HandshakeTimeout: 30 * time.Second}
	d.TLSClientConfig = &tls.Config{RootCAs: thePKI.pool, InsecureSkipVerify: cfg.skipVerify}
	if cfg.nd {
		d.NetDial = func(network, addr string) (net.Conn, error) { return pipeTo("ND", addr) }
	}
	if cfg.ndc {
		d.NetDialContext = func(ctx context.Context, network, addr string) (net.Conn, error) { return pipeTo("NDC", addr) }
	}
	if cfg.preTLS {
		// the application's dial function does TLS of its own, to a front end known as other.test
		d.NetDialContext = func(ctx context.Context, network, addr string) (net.Conn, error) {
			c, err := pipeTo("NDC", addr)
			if err != nil {
				return nil, err
			}
			tc := tls.Client(c, &tls.Config{RootCAs: thePKI.pool, ServerName: "other.test"})
			if err := tc.HandshakeContext(ctx); err != nil {
				c.Close()
				return nil, err
			}
			return tc, nil
		}
	}
	if cfg.ndtls {
		d.NetDialTLSContext = func(ctx context.Context, network, addr string) (net.Conn, error) {
			c, err := pipeTo("NDTLS", addr)
			if err != nil {
				return nil, err
			}
			host, _, _ := net.SplitHostPort(addr)
			tc := tls.Client(c, &tls.Config{RootCAs: thePKI.pool, ServerName: host})
			if err := tc.HandshakeContext(ctx); err != nil {
				c.Close()
				return nil, err
			}
			return tc, nil
		}
	}
	if cfg.proxy != "" {
		cred := ""
		switch cfg.cred {
		case "user":
			cred = "alice@"
		case "userpass":
			cred = "alice:s3cret@"
			if cfg.longPass > 0 {
				cred = "alice:" + longPassword(cfg.longPass) + "@"
			}
		case "userempty":
			cred = "alice:@"
		}
		pu, _ := url.Parse(cfg.proxy + "://" + cred + proxyAddr)
		d.Proxy = func(*http.Request) (*url.URL, error) { return pu, nil }
	}
	u := "ws://backend.test/x"
	if cfg.wss {
		u = "wss://backend.test/x"
	}
	func() {
		defer func() {
			if p := recover(); p != nil {
				panicked = fmt.Sprint(p)
			}
		}()
		var rh http.Header
		if cfg.hostHdr != "" {
			rh = http.Header{"Host": {cfg.hostHdr}}
		}
		conn, _, err = d.Dial(u, rh)
	}()
	for i := 0; i < len(raws); i += 2 {
		if raws[i].(*aconn).closedHere() {
			o.selfClosed++
		} else {
			o.leftOpen++
		}
		raws[i].(*aconn).dmu.Lock()
		if !raws[i].(*aconn).armed {
			o.unarmed++
		}
		raws[i].(*aconn).dmu.Unlock()
	}
	// close the raw pipe ends: closing through nested tls.Conns would wait for close_notify exchanges
	// that a synchronous net.Pipe cannot complete
	for _, rc := range raws {
		rc.Close()
	}
	waitTimeout(&wg, 150*time.Millisecond)
	return
}

func waitTimeout(wg *sync.WaitGroup, d time.Duration) {
	ch := make(chan struct{})
	go func() { wg.Wait(); close(ch) }()
	select {
	case <-ch:
	case <-time.After(d):
	}
}

var mxProxies = []string{"", "http", "https", "socks5"}
var mxCreds = []string{"", "user", "userpass", "userempty"}
var mxCerts = []string{"ok", "other", "untrusted"}

func mxCellFromIndex(i int) (mxCfg, bool) {
	var c mxCfg
	c.proxy = mxProxies[i%4]
	i /= 4
	c.wss = i%2 == 1
	i /= 2
	fn := i % 8
	c.nd, c.ndc, c.ndtls = fn&1 != 0, fn&2 != 0, fn&4 != 0
	i /= 8
	c.cred = mxCreds[i%4]
	i /= 4
	c.cert = mxCerts[i%3]
	i /= 3
	c.skipVerify = i%2 == 1
	if c.proxy == "" && c.cred != "" {
		return c, false
	}
	if !c.wss && c.cert != "ok" {
		return c, false
	}
	// cells that would need the real network (no applicable custom dial function) are not runnable offline
	firstHTTPS := (c.proxy == "https") || (c.proxy == "" && c.wss)
	if !(c.nd || c.ndc) && !(firstHTTPS && c.ndtls) {
		return c, false
	}
	return c, true
}

func runMatrixScenario(seed int64, idx int) *scenario {
	cfg, ok := mxCellFromIndex(idx)
	if !ok {
		return nil
	}
	sc := &scenario{kind: "matrix", seed: seed}
	o, conn, err, pan := runMatrixCell(cfg)
	line := fmt.Sprintf("mx proxy=%s wss=%d nd=%d ndc=%d ndtls=%d cred=%s cert=%s skip=%d", orDash(cfg.proxy), b2i(cfg.wss), b2i(cfg.nd), b2i(cfg.ndc), b2i(cfg.ndtls), orDash(cfg.cred), cfg.cert, b2i(cfg.skipVerify))
	if pan != "" {
		sc.emit(line, "panic")
		sc.violate("Dial panicked: %s", pan)
		return sc
	}
	o.mu.Lock()
	defer o.mu.Unlock()
	first := "-"
	if len(o.dials) > 0 {
		first = strings.ReplaceAll(o.dials[0], " ", "@")
	}
	connect := "-"
	if len(o.connects) == 1 {
		connect = strings.ReplaceAll(o.connects[0], " ", "@")
	} else if len(o.connects) > 1 {
		connect = fmt.Sprintf("MULTI%d", len(o.connects))
	}
	socks := "-"
	if len(o.socks) == 1 {
		socks = strings.ReplaceAll(o.socks[0], " ", "@")
	}
	sni := "-"
	if len(o.backendSNI) > 0 {
		sni = o.backendSNI[len(o.backendSNI)-1]
	}
	sc.emit(line, fmt.Sprintf("ok=%d dials=%d first=%s connect=%s socks=%s sni=%s upgrades=%d", b2i(err == nil && conn != nil), len(o.dials), first, connect, socks, sni, o.upgrades))
	sc.tag("proxy:" + orDash(cfg.proxy))
	// ---- oracle (independent of the model)
	okDial := err == nil && conn != nil
	// C16: a failed Dial leaves no dialed connection open; a successful one keeps exactly its own
	if !okDial && o.leftOpen > 0 {
		sc.violate("Dial failed (%v) but left %d of %d dialed network connections open", err, o.leftOpen, o.leftOpen+o.selfClosed)
	}
	if okDial && o.unarmed > 0 {
		// C16: HandshakeTimeout is set in every cell: the opening handshake ran on each dialed connection
		// under a deadline, whichever dial function produced it
		sc.violate("successful Dial with HandshakeTimeout set: no deadline was ever armed on %d of the dialed connections (first hop %v)", o.unarmed, o.dials)
	}
	if okDial && (o.leftOpen != 1 || o.selfClosed != 0) {
		sc.violate("successful Dial: %d dialed connections open, %d closed; expected exactly its own one open", o.leftOpen, o.selfClosed)
	}
	if cfg.proxy != "" {
		wantAddr := map[string]string{"http": "proxy.test:8080", "https": "proxy.test:8443", "socks5": "proxy.test:1080"}[cfg.proxy]
		for _, dl := range o.dials {
			if !strings.HasSuffix(dl, " "+wantAddr) {
				sc.violate("proxy configured but a dial went to %q", dl)
			}
		}
	}
	target := "backend.test:80"
	if cfg.wss {
		target = "backend.test:443"
	}
	if cfg.proxy == "http" || cfg.proxy == "https" {
		if okDial && len(o.connects) != 1 {
			sc.violate("dial through %s proxy succeeded with %d CONNECT requests", cfg.proxy, len(o.connects))
		}
		for _, c := range o.connects {
			f := strings.Fields(c)
			if f[0] != "CONNECT" || f[1] != target {
				sc.violate("proxy saw %q, expected CONNECT %s", c, target)
			}
			auth := strings.TrimPrefix(f[len(f)-1], "auth=")
			if len(f) == 4 {
				auth = f[2][len("auth="):] + " " + f[3]
			}
			wantAuth := ""
			switch cfg.cred {
			case "userpass":
				wantAuth = "Basic " + base64.StdEncoding.EncodeToString([]byte("alice:s3cret"))
				if cfg.longPass > 0 {
					wantAuth = "Basic " + base64.StdEncoding.EncodeToString([]byte("alice:"+longPassword(cfg.longPass)))
				}
			case "userempty":
				wantAuth = "Basic " + base64.StdEncoding.EncodeToString([]byte("alice:"))
			}
			if auth != wantAuth {
				sc.violate("Proxy-Authorization %q, expected %q (credentials %q)", auth, wantAuth, cfg.cred)
			}
		}
	}
	if cfg.proxy == "socks5" && okDial {
		if len(o.socks) != 1 || !strings.HasPrefix(o.socks[0], target+" ") {
			sc.violate("socks5 proxy saw %v, expected one request for %s", o.socks, target)
		}
	}
	if cfg.wss {
		for _, inTLS := range o.upgradeTLS {
			if !inTLS {
				sc.violate("wss: the WebSocket request reached the backend outside TLS")
			}
		}
		trusted := cfg.cert == "ok" || cfg.skipVerify
		libVerifies := !(cfg.ndtls && cfg.proxy == "") // a custom NetDialTLSContext is trusted to have done TLS itself
		if !trusted && libVerifies && (okDial || o.upgrades > 0) {
			sc.violate("wss: certificate %q (skipVerify=%v) but dial ok=%v and %d requests reached the backend", cfg.cert, cfg.skipVerify, okDial, o.upgrades)
		}
		if cfg.cert == "ok" && !okDial {
			sc.violate("wss with a valid certificate failed: %v (server side: %v)", err, o.serverErrs)
		}
		if libVerifies && len(o.backendSNI) > 0 && o.backendSNI[len(o.backendSNI)-1] != "backend.test" {
			sc.violate("TLS to the backend used ServerName %q", o.backendSNI[len(o.backendSNI)-1])
		}
	} else if !okDial {
		sc.violate("ws dial failed: %v (server side: %v)", err, o.serverErrs)
	}
	if (cfg.proxy == "http" || cfg.proxy == "https") && cfg.cred == "userpass" && !cfg.wss {
		// the same cell with long passwords (API tokens): exactly one CONNECT with the right credentials,
		// same outcome (oracle only)
		for _, n := range []int{90, 91, 100, 122, 123, 200} {
			cfg2 := cfg
			cfg2.longPass = n
			o2, c2, err2, p2 := runMatrixCell(cfg2)
			if p2 != "" {
				sc.violate("Dial with a %d-character proxy password panicked: %s", n, p2)
				continue
			}
			if ok2 := err2 == nil && c2 != nil; ok2 != okDial {
				sc.violate("Dial with a %d-character proxy password: ok=%v (%v), with a short one ok=%v", n, ok2, err2, okDial)
			}
			want := "Basic " + base64.StdEncoding.EncodeToString([]byte("alice:"+longPassword(n)))
			o2.mu.Lock()
			if len(o2.connects) != len(o.connects) {
				sc.violate("%d-character proxy password: %d CONNECT requests, %d with a short one", n, len(o2.connects), len(o.connects))
			}
			for _, c := range o2.connects {
				if !strings.HasSuffix(c, want) {
					sc.violate("%d-character proxy password: proxy saw %q, expected Proxy-Authorization %q", n, c, want)
				}
			}
			o2.mu.Unlock()
		}
		sc.tag("mx:longpass")
	}
	if cfg.wss && cfg.proxy == "" && cfg.ndc {
		// a dial function that hands back a TLS connection of its own, authenticated under another
		// name: only NetDialTLSContext is trusted to have done the TLS for the URL's host; the library
		// still runs its own handshake, verified for backend.test, and this dial cannot succeed (oracle only)
		cfg2 := cfg
		cfg2.preTLS = true
		cfg2.nd, cfg2.ndtls, cfg2.cert, cfg2.skipVerify = false, false, "other", false
		o2, c2, err2, p2 := runMatrixCell(cfg2)
		if p2 != "" {
			sc.violate("Dial over an application-made TLS connection panicked: %s", p2)
		}
		o2.mu.Lock()
		if (err2 == nil && c2 != nil) || o2.upgrades > 0 {
			sc.violate("the dial function returned a TLS connection authenticated as other.test; wss://backend.test dial ok=%v, %d handshake requests reached the server inside that session", err2 == nil && c2 != nil, o2.upgrades)
		}
		o2.mu.Unlock()
		sc.tag("mx:pretls")
	}
	if cfg.wss {
		// the same cell with a Host entry in the caller's header: the name the certificate is
		// verified for is the URL's host, whatever the Host header says (oracle only)
		cfg2 := cfg
		cfg2.hostHdr = "other.test"
		o2, c2, err2, p2 := runMatrixCell(cfg2)
		ok2 := err2 == nil && c2 != nil
		if p2 != "" {
			sc.violate("Dial with a Host header panicked: %s", p2)
		}
		trusted := cfg.cert == "ok" || cfg.skipVerify
		libVerifies := !(cfg.ndtls && cfg.proxy == "")
		if !trusted && libVerifies && (ok2 || o2.upgrades > 0) {
			sc.violate("wss with Host header other.test: certificate %q (skipVerify=%v) is not valid for the URL's host but dial ok=%v and %d requests reached the backend", cfg.cert, cfg.skipVerify, ok2, o2.upgrades)
		}
		if cfg.cert == "ok" && !ok2 {
			sc.violate("wss with Host header other.test and a certificate valid for the URL's host failed: %v (server side: %v)", err2, o2.serverErrs)
		}
		if libVerifies && len(o2.backendSNI) > 0 && o2.backendSNI[len(o2.backendSNI)-1] != "backend.test" {
			sc.violate("wss with Host header other.test: TLS to the backend used ServerName %q", o2.backendSNI[len(o2.backendSNI)-1])
		}
		if c2 != nil {
			c2.NetConn().Close()
		}
		sc.tag("mx:hosthdr")
	}
	// the first hop uses the applicable custom dial function
	if len(o.dials) > 0 {
		firstHTTPS := (cfg.proxy == "https") || (cfg.proxy == "" && cfg.wss)
		want := "ND"
		if cfg.ndc {
			want = "NDC"
		}
		if firstHTTPS && cfg.ndtls {
			want = "NDTLS"
		}
		if !strings.HasPrefix(o.dials[0], want+" ") {
			sc.violate("first hop dialed with %q, expected the %s function", o.dials[0], want)
		}
	}
	return sc
}

func orDash(s string) string {
	if s == "" {
		return "-"
	}
	return s
}

// ---------------------------------------------------------------------------
// asynchronous in-memory duplex connection: Write never blocks (unbounded buffer), so TLS alert /
// close_notify exchanges cannot deadlock the way they do on the synchronous net.Pipe.
// ---------------------------------------------------------------------------

type aq struct {
	mu     sync.Mutex
	cond   *sync.Cond
	buf    []byte
	closed bool
}

func newAQ() *aq { q := &aq{}; q.cond = sync.NewCond(&q.mu); return q }

type aconn struct {
	rd, wr   *aq
	deadline time.Time
	dmu      sync.Mutex
	self     bool // Close was called on this end
	armed    bool // a non-zero deadline was set on this end at some point
}

func (c *aconn) closedHere() bool { c.dmu.Lock(); defer c.dmu.Unlock(); return c.self }

func asyncPipe() (net.Conn, net.Conn) {
	a, b := newAQ(), newAQ()
	return &aconn{rd: a, wr: b}, &aconn{rd: b, wr: a}
}

func (c *aconn) Read(p []byte) (int, error) {
	q := c.rd
	q.mu.Lock()
	defer q.mu.Unlock()
	for len(q.buf) == 0 && !q.closed {
		c.dmu.Lock()
		dl := c.deadline
		c.dmu.Unlock()
		if !dl.IsZero() {
			if time.Now().After(dl) {
				return 0, &tErr{id: 999, timeout: true}
			}
			// wake up at the deadline
			t := time.AfterFunc(time.Until(dl)+time.Millisecond, func() { q.mu.Lock(); q.cond.Broadcast(); q.mu.Unlock() })
			q.cond.Wait()
			t.Stop()
		} else {
			q.cond.Wait()
		}
	}
	if len(q.buf) == 0 {
		return 0, io.EOF
	}
	n := copy(p, q.buf)
	q.buf = q.buf[n:]
	return n, nil
}

func (c *aconn) Write(p []byte) (int, error) {
	q := c.wr
	q.mu.Lock()
	defer q.mu.Unlock()
	if q.closed {
		return 0, io.ErrClosedPipe
	}
	q.buf = append(q.buf, p...)
	q.cond.Broadcast()
	return len(p), nil
}

func (c *aconn) Close() error {
	c.dmu.Lock()
	c.self = true
	c.dmu.Unlock()
	for _, q := range []*aq{c.rd, c.wr} {
		q.mu.Lock()
		q.closed = true
		q.cond.Broadcast()
		q.mu.Unlock()
	}
	return nil
}

func (c *aconn) LocalAddr() net.Addr  { return tAddr{} }
func (c *aconn) RemoteAddr() net.Addr { return tAddr{} }
func (c *aconn) SetDeadline(t time.Time) error {
	c.dmu.Lock()
	c.deadline = t
	if !t.IsZero() {
		c.armed = true
	}
	c.dmu.Unlock()
	c.rd.mu.Lock()
	c.rd.cond.Broadcast()
	c.rd.mu.Unlock()
	return nil
}
func (c *aconn) SetReadDeadline(t time.Time) error  { return c.SetDeadline(t) }
func (c *aconn) SetWriteDeadline(t time.Time) error { return nil }
