package main

import (
	"bufio"
	"bytes"
	"context"
	"crypto/tls"
	"encoding/base64"
	"fmt"
	"io"
	"math/rand"
	"net"
	"net/http"
	"net/url"
	"strings"
	"time"

	"github.com/gorilla/websocket"
)

// ---------------------------------------------------------------------------
// C16: every transport operation of a handshake fails in turn
// ---------------------------------------------------------------------------

func collapseReads(ops []string) []string {
	var out []string
	for _, o := range ops {
		if o == "R" && len(out) > 0 && out[len(out)-1] == "R" {
			continue
		}
		out = append(out, o)
	}
	return out
}

// canonical index of raw op k after collapsing runs of reads
func canonIndex(ops []string, k int) int {
	idx := -1
	for i := 0; i <= k && i < len(ops); i++ {
		if ops[i] == "R" && i > 0 && ops[i-1] == "R" {
			continue
		}
		idx++
	}
	return idx
}

func replyFor(wire []byte, skip int) []byte {
	// find the key in the (last) request written
	key := ""
	for _, l := range strings.Split(string(wire), "\r\n") {
		if i := strings.Index(l, ":"); i > 0 && asciiLower(l[:i]) == "sec-websocket-key" {
			key = owsTrim(l[i+1:])
		}
	}
	return []byte("HTTP/1.1 101 Switching Protocols\r\nUpgrade: websocket\r\nConnection: Upgrade\r\nSec-WebSocket-Accept: " + acceptFor(key) + "\r\n\r\n")
}

type hsCfg struct {
	server  bool
	timeout bool
	proxy   bool
	ctxDL   bool // the deadline comes from the caller's context (HandshakeTimeout is zero), client only
	// ctxAlso: HandshakeTimeout (1h) and a context deadline this far away are both configured (0: no)
	ctxAlso time.Duration
	// proxyURL: use this URL object for the proxy (the same object across several dials)
	proxyURL *url.URL
	// proxy credentials (decoded form), for the Proxy-Authorization oracle
	proxyUser, proxyPass string
}

// one handshake over a scripted conn with the given op failing; returns the conn's op log etc.
func runHandshake(cfg hsCfg, failAt int, kind string, proxyReply string) (t *TConn, conn *websocket.Conn, err error, panicked string) {
	log := &evlog{}
	t = newTConn(log)
	t.gen = true
	t.quiet = true
	t.gfail = failAt
	t.gkind = kind
	defer func() {
		if p := recover(); p != nil {
			panicked = fmt.Sprint(p)
		}
	}()
	if cfg.server {
		u := &websocket.Upgrader{}
		if cfg.timeout {
			u.HandshakeTimeout = time.Hour
		}
		w := &fakeRW{hdr: http.Header{}, conn: t}
		w.brw = bufio.NewReadWriter(bufio.NewReaderSize(t, 4096), bufio.NewWriterSize(t, 4096))
		req := &http.Request{Method: "GET", Host: "example.com", URL: &url.URL{Path: "/"}, Header: http.Header{
			"Connection": {"Upgrade"}, "Upgrade": {"websocket"}, "Sec-Websocket-Version": {"13"}, "Sec-Websocket-Key": {"dGhlIHNhbXBsZSBub25jZQ=="}}}
		conn, err = u.Upgrade(w, req, nil)
		return
	}
	d := &websocket.Dialer{}
	ctx := context.Background()
	if cfg.timeout && !cfg.ctxDL {
		d.HandshakeTimeout = time.Hour
	}
	if cfg.ctxDL {
		var cancel context.CancelFunc
		ctx, cancel = context.WithTimeout(ctx, time.Hour)
		defer cancel()
	}
	if cfg.ctxAlso != 0 {
		var cancel context.CancelFunc
		ctx, cancel = context.WithTimeout(ctx, cfg.ctxAlso)
		defer cancel()
	}
	if cfg.proxy {
		pu := &url.URL{Scheme: "http", Host: "proxy.test:8080"}
		if cfg.proxyUser != "" {
			pu.User = url.UserPassword(cfg.proxyUser, cfg.proxyPass)
		}
		if cfg.proxyURL != nil {
			pu = cfg.proxyURL
		}
		d.Proxy = func(*http.Request) (*url.URL, error) { return pu, nil }
		t.dynQ = append(t.dynQ, func([]byte) []byte { return []byte(proxyReply) })
	}
	t.dynQ = append(t.dynQ, func(w []byte) []byte { return replyFor(w, 0) })
	d.NetDialContext = func(ctx context.Context, network, addr string) (net.Conn, error) { return t, nil }
	conn, _, err = d.DialContext(ctx, "ws://backend.test/path", nil)
	return
}

func runHsFaultScenario(seed int64, idx int) *scenario {
	r := rand.New(rand.NewSource(seed))
	sc := &scenario{kind: "hsfault", seed: seed}
	tv := (idx / 3) % 3 // 0: HandshakeTimeout, 1: no deadline, 2: deadline from the caller's context
	cfg := hsCfg{server: idx%3 == 0, timeout: tv != 1, proxy: idx%3 == 1}
	cfg.ctxDL = tv == 2 && !cfg.server
	// fault-free run first: it defines the op list
	t0, c0, err0, p0 := runHandshake(cfg, -1, "", "HTTP/1.1 200 Connection established\r\n\r\n")
	line := fmt.Sprintf("plan server=%d timeout=%d proxy=%d", b2i(cfg.server), b2i(cfg.timeout), b2i(cfg.proxy))
	if p0 != "" {
		sc.emit(line, "panic")
		sc.violate("handshake panicked: %s", p0)
		return sc
	}
	ops0 := collapseReads(t0.ops)
	sc.emit(line, fmt.Sprintf("ops=%s returned=%d closed=%d", strings.Join(ops0, ","), b2i(c0 != nil), b2i(t0.closed > 0)))
	if err0 != nil || c0 == nil {
		sc.violate("fault-free handshake failed: %v", err0)
		return sc
	}
	if t0.closed > 0 {
		sc.violate("successful handshake closed the network connection")
	}
	// no deadline left armed: the last deadline operation must set the zero time
	lastD := ""
	readArmed, writeArmed := "", ""
	for _, o := range t0.ops {
		if strings.HasPrefix(o, "S") {
			lastD = o
			armed := ""
			if !strings.HasSuffix(o, ":0") {
				armed = o
			}
			switch {
			case strings.HasPrefix(o, "SD:"):
				readArmed, writeArmed = armed, armed
			case strings.HasPrefix(o, "SRD:"):
				readArmed = armed
			case strings.HasPrefix(o, "SWD:"):
				writeArmed = armed
			}
		}
	}
	if lastD != "" && !strings.HasSuffix(lastD, ":0") {
		sc.violate("handshake returned with a deadline still armed: last deadline op %s", lastD)
	}
	if readArmed != "" || writeArmed != "" {
		sc.violate("handshake returned with a deadline still armed (read: %q, write: %q; ops %v)", readArmed, writeArmed, t0.ops)
	}
	if cfg.timeout && !cfg.server {
		// every operation after the dial runs under a deadline: the first op must arm it
		if len(t0.ops) == 0 || t0.ops[0] != "SD:D" {
			sc.violate("HandshakeTimeout set but the first transport operation is %v, not SetDeadline(deadline)", t0.ops)
		}
	}
	if cfg.timeout && !cfg.server && !cfg.ctxDL {
		// HandshakeTimeout together with a context deadline: the handshake is bounded by the earlier
		// of the two (oracle only)
		for _, also := range []time.Duration{5 * time.Hour, 10 * time.Minute} {
			cfg2 := cfg
			cfg2.ctxAlso = also
			t2, c2, err2, p2 := runHandshake(cfg2, -1, "", "HTTP/1.1 200 Connection established\r\n\r\n")
			if p2 != "" || err2 != nil || c2 == nil {
				sc.violate("handshake with HandshakeTimeout=1h and a context deadline in %v failed: %v %s", also, err2, p2)
				continue
			}
			want := time.Hour
			if also < want {
				want = also
			}
			if len(t2.armedFor) == 0 {
				sc.violate("HandshakeTimeout=1h and context deadline in %v: no deadline armed on the connection", also)
			}
			for _, d := range t2.armedFor {
				if d > want+time.Minute || d < want-time.Minute {
					sc.violate("HandshakeTimeout=1h and context deadline in %v: the connection's deadline was armed %v ahead, expected the earlier of the two (%v)", also, d.Round(time.Second), want)
				}
			}
			sc.tag("hs:both-deadlines")
		}
	}
	if cfg.timeout && !cfg.server && !cfg.proxy {
		// a direct wss dial whose peer accepts the connection and then says nothing: the TLS handshake
		// is part of the opening handshake and ends at the HandshakeTimeout / context deadline (oracle only)
		d := &websocket.Dialer{TLSClientConfig: &tls.Config{InsecureSkipVerify: true}}
		ctx := context.Background()
		if cfg.ctxDL {
			var cancel context.CancelFunc
			ctx, cancel = context.WithTimeout(ctx, 300*time.Millisecond)
			defer cancel()
		} else {
			d.HandshakeTimeout = 300 * time.Millisecond
		}
		cl, sv := net.Pipe()
		go io.Copy(io.Discard, sv)
		d.NetDialContext = func(ctx context.Context, network, addr string) (net.Conn, error) { return cl, nil }
		type dres struct {
			c   *websocket.Conn
			err error
		}
		ch := make(chan dres, 1)
		start := time.Now()
		go func() {
			c, _, err := d.DialContext(ctx, "wss://backend.test/x", nil)
			ch <- dres{c, err}
		}()
		select {
		case x := <-ch:
			if x.err == nil || x.c != nil {
				sc.violate("wss dial to a peer that never answers the TLS handshake returned conn=%v err=%v", x.c != nil, x.err)
			}
			if el := time.Since(start); el > 3*time.Second {
				sc.violate("wss dial to a silent peer took %v with a 300ms handshake bound", el.Round(time.Millisecond))
			}
		case <-time.After(6 * time.Second):
			sc.violate("wss dial to a peer that never answers the TLS handshake did not return within 6s although the handshake is bounded by 300ms (ctx=%v)", cfg.ctxDL)
		}
		cl.Close()
		sv.Close()
		sc.tag("hs:tls-stall")
	}
	// every op fails in turn
	n := len(t0.ops)
	kinds := []string{"error", "timeout", "eof"}
	for k := 0; k < n; k++ {
		kind := kinds[(k+int(r.Int63()))%3]
		if t0.ops[k] != "R" && kind == "eof" {
			kind = "error"
		}
		if k > 0 && t0.ops[k] == "R" && t0.ops[k-1] == "R" {
			continue // later reads of a run are not reached separately by the model's plan
		}
		t, c, err, p := runHandshake(cfg, k, kind, "HTTP/1.1 200 Connection established\r\n\r\n")
		fl := fmt.Sprintf("%s fail=%d", line, canonIndex(t0.ops, k))
		if p != "" {
			sc.emit(fl, "panic")
			sc.violate("handshake panicked when op %d (%s) failed: %s", k, t0.ops[k], p)
			continue
		}
		ops := collapseReads(t.ops)
		sc.emit(fl, fmt.Sprintf("ops=%s returned=%d closed=%d", strings.Join(ops, ","), b2i(c != nil), b2i(t.closed > 0)))
		if !t.gfired {
			continue
		}
		if t0.ops[k] == "C" {
			continue
		}
		if c != nil || err == nil {
			sc.violate("op %d (%s) failed with %s but the handshake returned conn=%v err=%v", k, t0.ops[k], kind, c != nil, err)
		}
		if t.closed == 0 {
			sc.violate("op %d (%s) failed but the network connection was not closed", k, t0.ops[k])
		}
		if t.closed > 1 {
			sc.tag("closed-twice")
		}
	}
	// proxy credentials: Proxy-Authorization is Basic base64(user ":" password) of the DECODED userinfo of
	// the proxy URL, whatever characters it contains
	if cfg.proxy {
		for _, cr := range [][2]string{{"alice", "s3cret"}, {"al ice", "p@ss:w/rd"}, {"a%b", "#?&="}, {"ü", "pä\\ss"}, {"user@corp", "x y"}} {
			c2 := cfg
			c2.proxyUser, c2.proxyPass = cr[0], cr[1]
			t, _, _, p := runHandshake(c2, -1, "", "HTTP/1.1 200 Connection established\r\n\r\n")
			if p != "" {
				sc.violate("Dial through a proxy with credentials %q panicked: %s", cr, p)
				continue
			}
			got := ""
			for _, l := range strings.Split(strings.SplitN(string(t.wire), "\r\n\r\n", 2)[0], "\r\n") {
				if j := strings.Index(l, ":"); j > 0 && asciiLower(l[:j]) == "proxy-authorization" {
					got = owsTrim(l[j+1:])
				}
			}
			want := "Basic " + base64.StdEncoding.EncodeToString([]byte(cr[0]+":"+cr[1]))
			if got != want {
				sc.violate("proxy credentials %q:%q: Proxy-Authorization is %q, expected %q", cr[0], cr[1], got, want)
			}
		}
	}
	// a 200 reply to CONNECT with bytes glued behind it (a banner, coalesced tunnel data): whatever the
	// dial makes of it, a failed dial closes the connection
	if cfg.proxy {
		for _, rep := range []string{"HTTP/1.1 200 Connection established\r\n\r\nX", "HTTP/1.1 200 OK\r\n\r\n220 banner\r\n"} {
			t, c, err, p := runHandshake(cfg, -1, "", rep)
			if p != "" {
				sc.violate("CONNECT reply %q: panic %s", rep, p)
				continue
			}
			if (err != nil || c == nil) && t.closed == 0 {
				sc.violate("CONNECT reply %q: the dial failed (%v) and left the connection to the proxy open", rep, err)
			}
		}
	}
	// the credentials sent are those of the proxy URL at the time of the dial: the same URL object dialled
	// again after its userinfo was changed, reduced to a user name, or removed
	if cfg.proxy {
		pu := &url.URL{Scheme: "http", Host: "proxy.test:8080", User: url.UserPassword("alice", "s3cret")}
		steps := []struct {
			set  func()
			want string
		}{
			{func() {}, "Basic " + base64.StdEncoding.EncodeToString([]byte("alice:s3cret"))},
			{func() { pu.User = url.UserPassword("alice", "rotated") }, "Basic " + base64.StdEncoding.EncodeToString([]byte("alice:rotated"))},
			{func() { pu.User = url.User("alice") }, ""},
			{func() { pu.User = nil }, ""},
		}
		for i, st := range steps {
			st.set()
			c2 := cfg
			c2.proxyURL = pu
			t, _, _, p := runHandshake(c2, -1, "", "HTTP/1.1 200 Connection established\r\n\r\n")
			if p != "" {
				sc.violate("dial %d through one proxy URL object panicked: %s", i, p)
				continue
			}
			got := ""
			for _, l := range strings.Split(strings.SplitN(string(t.wire), "\r\n\r\n", 2)[0], "\r\n") {
				if j := strings.Index(l, ":"); j > 0 && asciiLower(l[:j]) == "proxy-authorization" {
					got = owsTrim(l[j+1:])
				}
			}
			if got != st.want {
				sc.violate("dial %d through the same proxy URL object (userinfo now %q): Proxy-Authorization is %q, expected %q", i, pu.User.String(), got, st.want)
			}
		}
		sc.tag("hs:proxy-cred-rotation")
	}
	// proxy refusals: any non-200 reply aborts with an error, connection closed, no panic (F6)
	if cfg.proxy {
		for _, rep := range []string{"HTTP/1.1 407 Proxy Authentication Required\r\n\r\n", "HTTP/1.1 407\r\n\r\n", "HTTP/1.1 502 Bad Gateway\r\nContent-Length: 3\r\n\r\nabc", "HTTP/1.1 301 \r\n\r\n", "garbage\r\n\r\n", "",
			"HTTP/1.1 201 Created\r\n\r\n", "HTTP/1.1 204 No Content\r\n\r\n", "HTTP/1.1 299 x\r\n\r\n", "HTTP/1.1 202 Accepted\r\nContent-Length: 0\r\n\r\n", "HTTP/1.1 100 Continue\r\n\r\n",
			// interim replies followed by a 200: the first reply decides
			"HTTP/1.1 100 Continue\r\n\r\nHTTP/1.1 200 Connection established\r\n\r\n", "HTTP/1.1 103 Early Hints\r\nLink: </x>\r\n\r\nHTTP/1.1 200 OK\r\n\r\n", "HTTP/1.1 101 Switching Protocols\r\n\r\nHTTP/1.1 200 OK\r\n\r\n"} {
			t, c, err, p := runHandshake(cfg, -1, "", rep)
			if p != "" {
				sc.knownHit("F6-proxy-status-without-reason", fmt.Sprintf("CONNECT reply %q: panic %s", rep, p))
				continue
			}
			if c != nil || err == nil {
				sc.violate("CONNECT reply %q did not abort the dial", rep)
			}
			if t.closed == 0 {
				sc.violate("CONNECT reply %q: connection to the proxy left open", rep)
			}
			for _, w := range strings.Split(string(t.wire), "\r\n\r\n") {
				if strings.HasPrefix(w, "GET ") {
					sc.violate("CONNECT reply %q: the WebSocket request was sent anyway", rep)
				}
			}
		}
	}
	return sc
}

// ---------------------------------------------------------------------------
// C17: bytes glued to the handshake
// ---------------------------------------------------------------------------

func runGlueScenario(seed int64) *scenario {
	r := rand.New(rand.NewSource(seed))
	sc := &scenario{kind: "glue", seed: seed}
	g := &rGen{rng: r, sc: sc, log: &evlog{}, opt: rOpts{mode: "conform", smallOnly: r.Intn(4) != 0}}
	// a third of the server-side scenarios negotiate permessage-deflate, so that the bytes glued to the
	// handshake may begin with a compressed (RSV1) frame, fragmented or not
	zsrv := seed%3 == 0
	ks := &keySource{keys: []byte{5, 6, 7, 8}}
	restore := websocket.VerifSetMaskRand(ks)
	defer restore()
	sc.emit("reset keys="+hx(ks.keys)+" caps="+readAllCapsStr, "ok")
	server := r.Intn(3) > 0
	g.srv = server
	g.rbuf = 0
	if server && zsrv {
		g.nego = true
		g.opt.compress = true
	}
	g.build()
	stream := g.stream
	if len(stream) > 3000 && server || len(stream) > 40000 {
		return nil
	}
	var c *websocket.Conn
	t := newTConn(g.log)
	earlyK := 0
	if server {
		brSize := []int{16, 256, 257, 4096}[r.Intn(4)]
		rbs := []int{0, 1, 255, 256, 4096}[r.Intn(5)]
		k := r.Intn(minInt(len(stream), brSize) + 1)
		pre := append([]byte(nil), stream[:k]...)
		earlyK = k
		t.chunks = g.chunking(append([]byte(nil), stream[k:]...))
		br := bufio.NewReaderSize(&prefixThenConn{pre: pre, conn: t}, brSize)
		if k > 0 {
			br.Peek(k)
		}
		w := &fakeRW{hdr: http.Header{}, conn: t}
		w.brw = bufio.NewReadWriter(br, bufio.NewWriterSize(t, 4096))
		u := &websocket.Upgrader{ReadBufferSize: rbs, EnableCompression: g.nego}
		req := &http.Request{Method: "GET", Host: "example.com", URL: &url.URL{Path: "/"}, Header: http.Header{
			"Connection": {"Upgrade"}, "Upgrade": {"websocket"}, "Sec-Websocket-Version": {"13"}, "Sec-Websocket-Key": {"dGhlIHNhbXBsZSBub25jZQ=="}}}
		if g.nego {
			req.Header["Sec-Websocket-Extensions"] = []string{"permessage-deflate; client_no_context_takeover; server_no_context_takeover"}
		}
		var err error
		c, err = u.Upgrade(w, req, nil)
		if err != nil {
			sc.violate("Upgrade failed: %v", err)
			return sc
		}
		t.wire = nil // drop the 101 from the write log
		g.log.take()
		reuse := rbs == 0 && brSize > 256
		var parts []string
		for _, ch := range t.chunks {
			parts = append(parts, hx(ch))
		}
		if reuse {
			sc.emit(fmt.Sprintf("conn c0 srv=1 wbuf=0 pool=0 nego=%d brsize=%d", b2i(g.nego), brSize), "ok")
			cs := strings.Join(parts, ",")
			if cs == "" {
				cs = "-"
			}
			sc.emit(fmt.Sprintf("feed c0 %s term=eof tog=0 pre=%s", cs, hx(pre)), "ok")
		} else {
			sc.emit(fmt.Sprintf("conn c0 srv=1 wbuf=0 pool=0 nego=%d rbuf=%d", b2i(g.nego), rbs), "ok")
			if k > 0 {
				parts = append([]string{hx(pre)}, parts...)
			}
			cs := strings.Join(parts, ",")
			if cs == "" {
				cs = "-"
			}
			sc.emit(fmt.Sprintf("feed c0 %s term=eof tog=0", cs), "ok")
		}
		sc.tag(fmt.Sprintf("srv:reuse=%v:pre=%v", reuse, k > 0))
	} else {
		// client: 101 and frames share transport reads in every split
		rbs := []int{0, 16, 125, 200, 1024, 4096, 8192, 16384}[r.Intn(8)]
		d := &websocket.Dialer{ReadBufferSize: rbs}
		var reply []byte
		t.dynQ = append(t.dynQ, func(w []byte) []byte {
			reply = replyFor(w, 0)
			all := append(append([]byte(nil), reply...), stream...)
			// the reply and the frames share transport reads in a random split
			t.chunks = g.chunking(all)
			return nil
		})
		d.NetDialContext = func(ctx context.Context, network, addr string) (net.Conn, error) { return t, nil }
		var err error
		c, _, err = d.Dial("ws://example.com/", nil)
		if err != nil {
			sc.violate("Dial failed: %v", err)
			return sc
		}
		t.wire = nil
		g.log.take()
		// model: the connection's own bufio.Reader consumed the header block line by line
		all := append(append([]byte(nil), reply...), stream...)
		_ = all
		var parts []string
		for _, ch := range t.allChunks {
			parts = append(parts, hx(ch))
		}
		for _, ch := range t.chunks {
			parts = append(parts, hx(ch))
		}
		sc.emit(fmt.Sprintf("conn c0 srv=0 wbuf=0 pool=0 nego=0 rbuf=%d", rbs), "ok")
		sc.emit(fmt.Sprintf("feed c0 %s term=eof tog=0", strings.Join(parts, ",")), "ok")
		sc.emit(fmt.Sprintf("lines c0 %d", bytes.Count(reply, []byte("\r\n"))), "ok")
		sc.tag("cli")
	}
	logDefaultHandlers(c, g.log)
	g.c = c
	g.t = t
	g.cut = len(stream)
	early := -1 // server: number of stream bytes that sat in the hijacked reader's buffer
	if server {
		early = earlyK
	}
	for i := 0; i < 20; i++ {
		ok := g.opReadMessage()
		// C17: a message that lay wholly in the bytes net/http had already buffered is delivered without
		// asking the socket for anything (the socket may be idle: the client is waiting for our answer)
		if mi := i; ok && early >= 0 && mi < len(g.msgs) && g.msgs[mi].last >= 0 && g.frames[g.msgs[mi].last].end <= early && t.nRead > 0 {
			sc.violate("message %d lay wholly within the %d bytes buffered before the upgrade, yet the socket was read %d time(s) before it was delivered", mi, early, t.nRead)
		}
		if !ok {
			break
		}
	}
	// oracle: every message complete and in order
	done := 0
	for h, d := range g.rdone {
		if d && g.rmsg[h] == done {
			done++
		}
	}
	if done != len(g.msgs) {
		sc.violate("%d of %d messages glued to the handshake were delivered", done, len(g.msgs))
	}
	return sc
}

// ---------------------------------------------------------------------------
// C15: a Dialer and an Upgrader negotiate, then exchange messages while toggling compression
// ---------------------------------------------------------------------------

func runNegoScenario(seed int64, idx int) *scenario {
	r := rand.New(rand.NewSource(seed))
	sc := &scenario{kind: "nego", seed: seed}
	log := &evlog{}
	dec, uec := idx%2 == 0, (idx/2)%2 == 0
	tc := newTConn(log)
	tc.quiet = true
	ts := newTConn(log)
	ts.quiet = true
	var sconn *websocket.Conn
	var serr error
	tc.dynQ = append(tc.dynQ, func(wire []byte) []byte {
		// the server side: parse the client's request with net/http and upgrade it
		req, err := http.ReadRequest(bufio.NewReader(bytes.NewReader(wire)))
		if err != nil {
			serr = err
			return nil
		}
		w := &fakeRW{hdr: http.Header{}, conn: ts}
		w.brw = bufio.NewReadWriter(bufio.NewReaderSize(ts, 4096), bufio.NewWriterSize(ts, 4096))
		u := &websocket.Upgrader{EnableCompression: uec, CheckOrigin: func(*http.Request) bool { return true }}
		sconn, serr = u.Upgrade(w, req, nil)
		reply := append([]byte(nil), ts.wire...)
		if serr != nil {
			reply = []byte(fmt.Sprintf("HTTP/1.1 %d x\r\nContent-Length: 0\r\n\r\n", w.status))
		}
		ts.wire = nil
		return reply
	})
	d := &websocket.Dialer{EnableCompression: dec}
	d.NetDialContext = func(ctx context.Context, network, addr string) (net.Conn, error) { return tc, nil }
	var hdr http.Header
	extra := ""
	if r.Intn(3) == 0 && !dec {
		// a hand-written offer through a non-owned header is impossible; vary the subprotocols instead
		d.Subprotocols = []string{"a", "b"}
		extra = " subs"
	}
	cconn, _, cerr := d.Dial("ws://example.com/x", hdr)
	sc.emit(fmt.Sprintf("nego dec=%d uec=%d%s", b2i(dec), b2i(uec), extra), "ok")
	if cerr != nil || serr != nil || sconn == nil || cconn == nil {
		sc.violate("handshake between Dialer(EnableCompression=%v) and Upgrader(EnableCompression=%v) failed: client %v server %v", dec, uec, cerr, serr)
		return sc
	}
	cw, cr := websocket.VerifNegotiated(cconn)
	sw, sr := websocket.VerifNegotiated(sconn)
	want := dec && uec
	if cw != want || cr != want || sw != want || sr != want {
		sc.violate("compression state after handshake: client (write %v, read %v) server (write %v, read %v), expected %v on both", cw, cr, sw, sr, want)
	}
	sc.tag(fmt.Sprintf("dec=%v,uec=%v", dec, uec))
	tc.wire = nil
	// exchange messages in both directions with toggles
	send := func(from *websocket.Conn, ft *TConn, to *websocket.Conn, tt *TConn, who string) {
		for i := 0; i < 4; i++ {
			switch r.Intn(4) {
			case 0:
				from.EnableWriteCompression(r.Intn(2) == 0)
			case 1:
				from.SetCompressionLevel(r.Intn(12) - 2)
			}
			n := []int{0, 1, 5, 200, 5000, 70000}[r.Intn(6)]
			p := make([]byte, n)
			for j := range p {
				p[j] = byte('a' + j%5)
			}
			t := 1 + r.Intn(2)
			if err := from.WriteMessage(t, p); err != nil {
				sc.violate("%s: WriteMessage failed: %v", who, err)
				return
			}
			tt.chunks = append(tt.chunks, append([]byte(nil), ft.wire...))
			ft.wire = nil
			gt, gp, err := to.ReadMessage()
			if err != nil || gt != t || !bytes.Equal(gp, p) {
				sc.violate("%s: message %d (type %d, %d bytes) arrived as type %d, %d bytes, err %v", who, i, t, n, gt, len(gp), err)
				return
			}
		}
	}
	send(cconn, tc, sconn, ts, "client→server")
	send(sconn, ts, cconn, tc, "server→client")
	// a large, poorly compressible message is opened and abandoned after a few bytes (its compressed
	// form is larger than the inflater's read-ahead and spans frames); the sender then switches write
	// compression off and on again: the following messages must arrive intact (round-9 change C15-18:
	// per-message decompression state that survives an abandoned message)
	abandon := func(from *websocket.Conn, ft *TConn, to *websocket.Conn, tt *TConn, who string) {
		big := make([]byte, 20000+r.Intn(40000))
		for j := range big {
			big[j] = byte(r.Intn(256))
		}
		from.EnableWriteCompression(true)
		wr, err := from.NextWriter(2)
		if err == nil {
			cut := 1 + r.Intn(len(big)-1)
			if _, err = wr.Write(big[:cut]); err == nil {
				if _, err = wr.Write(big[cut:]); err == nil {
					err = wr.Close()
				}
			}
		}
		if err != nil {
			sc.violate("%s: abandon phase: writing the large message failed: %v", who, err)
			return
		}
		tt.chunks = append(tt.chunks, append([]byte(nil), ft.wire...))
		ft.wire = nil
		_, rd, err := to.NextReader()
		if err != nil {
			sc.violate("%s: abandon phase: NextReader for the large message: %v", who, err)
			return
		}
		part := make([]byte, []int{1, 10, 700, 5000}[r.Intn(4)])
		if n, err := io.ReadFull(rd, part); err != nil || !bytes.Equal(part[:n], big[:n]) {
			sc.violate("%s: abandon phase: first %d bytes of the large message arrived wrong (n=%d err=%v)", who, len(part), n, err)
			return
		}
		for i, on := range []bool{false, true, false} {
			from.EnableWriteCompression(on)
			p := make([]byte, []int{0, 3, 300, 6000}[r.Intn(4)])
			for j := range p {
				p[j] = byte('k' + j%3)
			}
			t := 1 + r.Intn(2)
			if err := from.WriteMessage(t, p); err != nil {
				sc.violate("%s: abandon phase: WriteMessage failed: %v", who, err)
				return
			}
			tt.chunks = append(tt.chunks, append([]byte(nil), ft.wire...))
			ft.wire = nil
			gt, gp, err := to.ReadMessage()
			if err != nil || gt != t || !bytes.Equal(gp, p) {
				sc.violate("%s: message %d after an abandoned compressed message (type %d, %d bytes, write compression %v) arrived as type %d, %d bytes, err %v", who, i, t, len(p), on, gt, len(gp), err)
				return
			}
		}
	}
	abandon(cconn, tc, sconn, ts, "client→server")
	abandon(sconn, ts, cconn, tc, "server→client")
	if len(sc.violations) > 0 {
		return sc
	}
	// both endpoints live in one process (as a proxy or a test would have them): readers of the two
	// connections that are open at the same time must not disturb each other (shared decompressor pool)
	mk := func(tag byte, n int) []byte {
		p := make([]byte, n)
		for j := range p {
			p[j] = tag + byte(j%7)
		}
		return p
	}
	m1, m2, m3 := mk('A', 300), mk('K', 249), mk('S', 777)
	cconn.EnableWriteCompression(true)
	sconn.EnableWriteCompression(true)
	deliver := func(from, to *TConn) {
		to.chunks = append(to.chunks, append([]byte(nil), from.wire...))
		from.wire = nil
	}
	step := func(what string, err error) bool {
		if err != nil {
			sc.violate("overlapping readers: %s: %v", what, err)
			return false
		}
		return true
	}
	if !step("client WriteMessage", cconn.WriteMessage(2, m1)) {
		return sc
	}
	deliver(tc, ts)
	if _, p, err := sconn.ReadMessage(); err != nil || !bytes.Equal(p, m1) {
		sc.violate("overlapping readers: first message arrived as %d bytes, err %v", len(p), err)
		return sc
	}
	if !step("client WriteMessage", cconn.WriteMessage(2, m3)) || !step("server WriteMessage", sconn.WriteMessage(1, m2)) {
		return sc
	}
	deliver(tc, ts)
	deliver(ts, tc)
	_, rs, err1 := sconn.NextReader()
	_, rc, err2 := cconn.NextReader()
	if !step("server NextReader", err1) || !step("client NextReader", err2) {
		return sc
	}
	ps, errs := io.ReadAll(rs)
	pc, errc := io.ReadAll(rc)
	if errs != nil || !bytes.Equal(ps, m3) {
		sc.violate("overlapping readers: the server read %d bytes (err %v) of the client's %d-byte message while the client had a reader open", len(ps), errs, len(m3))
	}
	if errc != nil || !bytes.Equal(pc, m2) {
		sc.violate("overlapping readers: the client read %d bytes (err %v) of the server's %d-byte message while the server had a reader open", len(pc), errc, len(m2))
	}
	return sc
}

// ---------------------------------------------------------------------------
// C07: arbitrary bytes as the server's reply to Dial and as a proxy's reply to CONNECT
// ---------------------------------------------------------------------------

func runDialFuzzScenario(seed int64) *scenario {
	r := rand.New(rand.NewSource(seed))
	sc := &scenario{kind: "dfuzz", seed: seed}
	base := "HTTP/1.1 101 Switching Protocols\r\nUpgrade: websocket\r\nConnection: Upgrade\r\nSec-WebSocket-Accept: KEY\r\nSec-WebSocket-Extensions: permessage-deflate; server_no_context_takeover; client_no_context_takeover\r\n\r\n"
	pieces := []string{"HTTP/1.1 ", "HTTP/1.0 ", "101", "200", "407", "999999999999999999999", " ", "\r\n", "\n", ":", "Upgrade: websocket", "Connection: upgrade",
		"Sec-WebSocket-Extensions: ", "permessage-deflate", "; x=\"", "\\", "\"", ",", ";", "=", "Content-Length: 99999999999", "Transfer-Encoding: chunked", "\x00", "\xff", "a"}
	// well-formed replies of every body-delimiting kind (Content-Length, close-delimited, HTTP/1.0,
	// chunked, none) and several statuses, used whole or with a mutated status / header
	canned := []string{
		"HTTP/1.1 200 OK\r\n\r\nhello",
		"HTTP/1.0 403 Forbidden\r\n\r\nnope",
		"HTTP/1.1 400 Bad Request\r\nTransfer-Encoding: chunked\r\n\r\n5\r\nhello\r\n0\r\n\r\n",
		"HTTP/1.1 500 x\r\nConnection: close\r\n\r\n" + strings.Repeat("b", 3000),
		"HTTP/1.1 302 Found\r\nLocation: http://x/\r\nContent-Length: 0\r\n\r\n",
		"HTTP/1.1 204 No Content\r\n\r\n",
		"HTTP/1.1 101 Switching Protocols\r\nUpgrade: websocket\r\nConnection: Upgrade\r\nSec-WebSocket-Accept: nope\r\n\r\ntrailing-bytes",
		"HTTP/1.1 426 Upgrade Required\r\nContent-Length: 2000\r\n\r\n" + strings.Repeat("c", 2000),
		"HTTP/1.1 200 OK\r\nContent-Length: 10\r\n\r\nshort",
	}
	mk := func() []byte {
		switch r.Intn(6) {
		case 5:
			b := []byte(canned[r.Intn(len(canned))])
			if r.Intn(3) == 0 {
				b[r.Intn(len(b))] = byte(r.Intn(256))
			}
			return b
		case 0:
			b := make([]byte, r.Intn(200))
			r.Read(b)
			return b
		case 1:
			b := []byte(base)
			for i := 0; i < 1+r.Intn(5); i++ {
				b[r.Intn(len(b))] = byte(r.Intn(256))
			}
			return b
		case 2:
			return []byte(base[:r.Intn(len(base))])
		default:
			var sb strings.Builder
			for i := r.Intn(25); i >= 0; i-- {
				sb.WriteString(pieces[r.Intn(len(pieces))])
			}
			if r.Intn(2) == 0 {
				sb.WriteString("\r\n\r\n")
			}
			return []byte(sb.String())
		}
	}
	for i := 0; i < 6; i++ {
		reply := mk()
		proxyMode := i%2 == 1
		t := newTConn(&evlog{})
		t.quiet = true
		d := &websocket.Dialer{HandshakeTimeout: time.Second, EnableCompression: true}
		if proxyMode {
			d.Proxy = func(*http.Request) (*url.URL, error) { return url.Parse("http://proxy.test:8080") }
			t.dynQ = append(t.dynQ, func([]byte) []byte { return reply })
		} else {
			t.dynQ = append(t.dynQ, func(w []byte) []byte {
				key := ""
				for _, l := range strings.Split(string(w), "\r\n") {
					if j := strings.Index(l, ":"); j > 0 && asciiLower(l[:j]) == "sec-websocket-key" {
						key = owsTrim(l[j+1:])
					}
				}
				return bytes.ReplaceAll(reply, []byte("KEY"), []byte(acceptFor(key)))
			})
		}
		d.NetDialContext = func(ctx context.Context, network, addr string) (net.Conn, error) { return t, nil }
		var ms0, ms1 runtimeMem
		ms0.read()
		done := make(chan string, 1)
		go func() {
			defer func() {
				if p := recover(); p != nil {
					done <- fmt.Sprint("panic: ", p)
				}
			}()
			c, _, err := d.Dial("ws://backend.test/", nil)
			if err == nil && c == nil {
				done <- "nil conn without error"
				return
			}
			done <- ""
		}()
		select {
		case msg := <-done:
			if msg != "" {
				if proxyMode && strings.Contains(msg, "index out of range") {
					sc.knownHit("F6-proxy-status-without-reason", fmt.Sprintf("CONNECT reply %q: %s", reply, msg))
				} else {
					sc.violate("Dial with reply %q (proxy=%v): %s", reply, proxyMode, msg)
				}
			}
		case <-time.After(30 * time.Second):
			sc.violate("Dial with reply %q (proxy=%v) did not return", reply, proxyMode)
		}
		ms1.read()
		if dlt := ms1.total - ms0.total; dlt > uint64(1<<20) {
			sc.violate("Dial with a %d-byte reply allocated %d bytes", len(reply), dlt)
		}
		sc.emit(fmt.Sprintf("dfuzz %d", i), "ok")
	}
	return sc
}
