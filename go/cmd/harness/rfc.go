package main

import (
	"bytes"
	"compress/flate"
	"encoding/binary"
	"fmt"
	"io"
)

// ---------------------------------------------------------------------------
// Independent oracle: RFC 6455 §5.2 frame decoder and grammar checker and an
// RFC 7692 inflater, written from the RFC text. Shares no code with the
// library under test or with the Lean model.
// ---------------------------------------------------------------------------

type rfcFrame struct {
	fin, rsv1, rsv2, rsv3 bool
	op                    int
	masked                bool
	key                   [4]byte
	payload               []byte // unmasked
	minimal               bool
	start, end            int // byte offsets in the stream
}

// rfcDecode decodes as many whole frames as possible. rest is the undecodable
// tail (empty if the stream is a sequence of whole frames); bad describes a
// header-level impossibility (top bit set in a 64-bit length).
func rfcDecode(b []byte) (frames []rfcFrame, rest []byte, bad string) {
	off := 0
	for off < len(b) {
		p := b[off:]
		if len(p) < 2 {
			return frames, p, ""
		}
		var f rfcFrame
		f.start = off
		f.fin = p[0]&0x80 != 0
		f.rsv1 = p[0]&0x40 != 0
		f.rsv2 = p[0]&0x20 != 0
		f.rsv3 = p[0]&0x10 != 0
		f.op = int(p[0] & 0x0f)
		f.masked = p[1]&0x80 != 0
		l7 := int(p[1] & 0x7f)
		h := 2
		var n uint64
		f.minimal = true
		switch l7 {
		case 126:
			if len(p) < h+2 {
				return frames, p, ""
			}
			n = uint64(binary.BigEndian.Uint16(p[h:]))
			h += 2
			if n < 126 {
				f.minimal = false
			}
		case 127:
			if len(p) < h+8 {
				return frames, p, ""
			}
			n = binary.BigEndian.Uint64(p[h:])
			h += 8
			if n>>63 != 0 {
				return frames, p, "64-bit length with most significant bit set"
			}
			if n < 65536 {
				f.minimal = false
			}
		default:
			n = uint64(l7)
		}
		if f.masked {
			if len(p) < h+4 {
				return frames, p, ""
			}
			copy(f.key[:], p[h:h+4])
			h += 4
		}
		if uint64(len(p)-h) < n {
			return frames, p, ""
		}
		f.payload = append([]byte(nil), p[h:h+int(n)]...)
		if f.masked {
			for i := range f.payload {
				f.payload[i] ^= f.key[i%4]
			}
		}
		off += h + int(n)
		f.end = off
		frames = append(frames, f)
	}
	return frames, nil, ""
}

func isCtl(op int) bool { return op == 8 || op == 9 || op == 10 }

// rfcCheck returns the list of RFC violations of a frame sequence sent by an
// endpoint with the given role.
func rfcCheck(frames []rfcFrame, senderIsClient, negotiated bool) []string {
	var bad []string
	inMsg := false
	for i, f := range frames {
		at := func(s string) { bad = append(bad, fmt.Sprintf("frame %d: %s", i, s)) }
		if f.rsv2 || f.rsv3 {
			at("RSV2/RSV3 set")
		}
		if f.masked != senderIsClient {
			at("wrong MASK bit for role")
		}
		if !f.minimal {
			at("non-minimal length encoding")
		}
		switch {
		case isCtl(f.op):
			if !f.fin {
				at("fragmented control frame")
			}
			if len(f.payload) > 125 {
				at("control payload > 125")
			}
			if f.rsv1 {
				at("RSV1 on control frame")
			}
		case f.op == 1 || f.op == 2:
			if inMsg {
				at("new data frame inside unfinished message")
			}
			if f.rsv1 && !negotiated {
				at("RSV1 without negotiated extension")
			}
			inMsg = !f.fin
		case f.op == 0:
			if !inMsg {
				at("continuation without message in progress")
			}
			if f.rsv1 {
				at("RSV1 on continuation frame")
			}
			inMsg = !f.fin
		default:
			at(fmt.Sprintf("reserved opcode %d", f.op))
		}
	}
	return bad
}

type rfcMsg struct {
	op         int
	compressed bool
	payload    []byte // after inflation when compressed
	raw        []byte
	inflateErr string
	complete   bool
}

func rfcInflate(b []byte) ([]byte, error) {
	r := flate.NewReader(io.MultiReader(bytes.NewReader(b), bytes.NewReader([]byte{0, 0, 0xff, 0xff, 1, 0, 0, 0xff, 0xff})))
	return io.ReadAll(r)
}

// rfcMessages assembles data messages (complete ones, plus a trailing
// incomplete one marked !complete) and the control frames in order.
func rfcMessages(frames []rfcFrame) (msgs []rfcMsg, ctls []rfcFrame) {
	var cur *rfcMsg
	for _, f := range frames {
		if isCtl(f.op) {
			ctls = append(ctls, f)
			continue
		}
		if f.op == 1 || f.op == 2 {
			cur = &rfcMsg{op: f.op, compressed: f.rsv1}
		}
		if cur == nil {
			continue
		}
		cur.raw = append(cur.raw, f.payload...)
		if f.fin {
			cur.complete = true
			if cur.compressed {
				p, err := rfcInflate(cur.raw)
				cur.payload = p
				if err != nil {
					cur.inflateErr = err.Error()
				}
			} else {
				cur.payload = cur.raw
			}
			msgs = append(msgs, *cur)
			cur = nil
		}
	}
	if cur != nil {
		msgs = append(msgs, *cur)
	}
	return
}

// independent encoder used by the reader streams
type encFrame struct {
	fin, rsv1, rsv2, rsv3 bool
	op                    int
	masked                bool
	key                   [4]byte
	payload               []byte
	lenClass              int     // 0 minimal, 1 force 16-bit, 2 force 64-bit
	rawLen                *uint64 // override the length field (payload bytes still appended)
}

func (f encFrame) encode() []byte {
	var b []byte
	b0 := byte(f.op & 0xf)
	if f.fin {
		b0 |= 0x80
	}
	if f.rsv1 {
		b0 |= 0x40
	}
	if f.rsv2 {
		b0 |= 0x20
	}
	if f.rsv3 {
		b0 |= 0x10
	}
	b = append(b, b0)
	n := uint64(len(f.payload))
	if f.rawLen != nil {
		n = *f.rawLen
	}
	var m byte
	if f.masked {
		m = 0x80
	}
	switch {
	case f.lenClass == 2 || n >= 65536:
		b = append(b, m|127)
		var x [8]byte
		binary.BigEndian.PutUint64(x[:], n)
		b = append(b, x[:]...)
	case f.lenClass == 1 || n > 125:
		b = append(b, m|126)
		var x [2]byte
		binary.BigEndian.PutUint16(x[:], uint16(n))
		b = append(b, x[:]...)
	default:
		b = append(b, m|byte(n))
	}
	if f.masked {
		b = append(b, f.key[:]...)
		for i, x := range f.payload {
			b = append(b, x^f.key[i%4])
		}
	} else {
		b = append(b, f.payload...)
	}
	return b
}
