package main

import (
	"bytes"
	"fmt"
	"math/rand"
	"net"
	"sync"
	"time"

	"github.com/gorilla/websocket"
)

// ---------------------------------------------------------------------------
// C11 / C09: forced schedules with real goroutines. The transport parks the writer inside Write
// (holding the connection's write mutex) while WriteControl callers arrive; short deadlines must
// time out cleanly, long ones must go through afterwards, frames must stay contiguous and nothing
// may follow a close frame.
// ---------------------------------------------------------------------------

type schedConn struct {
	mu      sync.Mutex
	writes  [][]byte
	gate    chan struct{}
	entered chan struct{}
	parked  bool
	closed  bool
}

func (c *schedConn) Write(p []byte) (int, error) {
	c.mu.Lock()
	first := !c.parked
	c.parked = true
	c.mu.Unlock()
	if first {
		close(c.entered)
		<-c.gate
	}
	c.mu.Lock()
	c.writes = append(c.writes, append([]byte(nil), p...))
	c.mu.Unlock()
	return len(p), nil
}
func (c *schedConn) Read(p []byte) (int, error)         { select {} }
func (c *schedConn) Close() error                       { c.mu.Lock(); c.closed = true; c.mu.Unlock(); return nil }
func (c *schedConn) LocalAddr() net.Addr                { return tAddr{} }
func (c *schedConn) RemoteAddr() net.Addr               { return tAddr{} }
func (c *schedConn) SetDeadline(t time.Time) error      { return nil }
func (c *schedConn) SetReadDeadline(t time.Time) error  { return nil }
func (c *schedConn) SetWriteDeadline(t time.Time) error { return nil }

func runSchedScenario(seed int64) *scenario {
	r := rand.New(rand.NewSource(seed))
	sc := &scenario{kind: "sched", seed: seed}
	srv := r.Intn(2) == 0
	sconn := &schedConn{gate: make(chan struct{}), entered: make(chan struct{})}
	ks := &keySource{keys: []byte{1, 2, 3, 4, 5, 6, 7, 8}}
	restore := websocket.VerifSetMaskRand(&lockedReader{r: ks})
	defer restore()
	wbuf := []int{16, 125, 512, 4096}[r.Intn(4)]
	c := websocket.VerifNewConn(sconn, srv, 0, wbuf, nil, nil, nil)
	payload := make([]byte, []int{3, 200, 1000, 5000}[r.Intn(4)])
	for i := range payload {
		payload[i] = byte(i)
	}
	var wg sync.WaitGroup
	var werr error
	wg.Add(1)
	go func() { defer wg.Done(); werr = c.WriteMessage(2, payload) }()
	select {
	case <-sconn.entered:
	case <-time.After(3 * time.Second):
		sc.violate("writer never reached the transport")
		return sc
	}
	// the writer now sits inside Write holding the mutex
	n := r.Intn(7)
	type caller struct {
		short   bool
		isClose bool
		payload []byte
		err     error
		took    time.Duration
		done    chan struct{}
	}
	var callers []*caller
	closeCount := 0
	for i := 0; i < n; i++ {
		cl := &caller{short: r.Intn(2) == 0, done: make(chan struct{})}
		cl.payload = []byte(fmt.Sprintf("ctl-%d-%d", seed%1000, i))
		if !cl.short && r.Intn(4) == 0 && closeCount == 0 {
			cl.isClose = true
			closeCount++
			cl.payload = append([]byte{0x03, 0xe8}, cl.payload...)
		}
		callers = append(callers, cl)
		go func(cl *caller) {
			d := 5 * time.Second
			if cl.short {
				d = 25 * time.Millisecond
			}
			t := websocket.PingMessage
			if cl.isClose {
				t = websocket.CloseMessage
			}
			s := time.Now()
			cl.err = c.WriteControl(t, cl.payload, time.Now().Add(d))
			cl.took = time.Since(s)
			close(cl.done)
		}(cl)
	}
	// short-deadline callers must return (with a timeout) although the writer is still blocked
	for i, cl := range callers {
		if !cl.short {
			continue
		}
		select {
		case <-cl.done:
			if cl.err == nil || errName(cl.err) != "writeTimeout" {
				sc.violate("WriteControl #%d with a 25ms deadline returned %v while the writer held the connection", i, cl.err)
			}
		case <-time.After(4 * time.Second):
			sc.violate("WriteControl #%d with a 25ms deadline did not return within 4s while the writer was blocked in the transport", i)
		}
	}
	close(sconn.gate)
	wg.Wait()
	for i, cl := range callers {
		if cl.short {
			continue
		}
		select {
		case <-cl.done:
		case <-time.After(4 * time.Second):
			sc.violate("WriteControl #%d (long deadline) never returned after the writer finished", i)
		}
	}
	// afterwards: not poisoned, unless a close went out
	after := c.WriteMessage(1, []byte("after"))
	sconn.mu.Lock()
	writes := sconn.writes
	sconn.mu.Unlock()
	var wire []byte
	closeSeen := false
	for i, w := range writes {
		fr, rest, bad := rfcDecode(w)
		if bad != "" || len(rest) > 0 || len(fr) == 0 {
			// the server's two-buffer write of one frame is split in two transport writes: join with the next
			if i+1 < len(writes) {
				j := append(append([]byte(nil), w...), writes[i+1]...)
				if f2, r2, b2 := rfcDecode(j); b2 == "" && len(r2) == 0 && len(f2) == 1 {
					wire = append(wire, w...)
					continue
				}
			}
			if i > 0 {
				j := append(append([]byte(nil), writes[i-1]...), w...)
				if f2, r2, b2 := rfcDecode(j); b2 == "" && len(r2) == 0 && len(f2) == 1 {
					wire = append(wire, w...)
					continue
				}
			}
			sc.violate("transport write %d is not a whole frame (another writer's bytes would land inside it)", i)
		}
		wire = append(wire, w...)
	}
	frames, rest, bad := rfcDecode(wire)
	if bad != "" || len(rest) > 0 {
		sc.violate("interleaved wire is not a sequence of whole frames: %s, %d stray bytes", bad, len(rest))
	}
	for _, p := range rfcCheck(frames, !srv, false) {
		sc.violate("interleaved wire violates RFC 6455: %s", p)
	}
	for i, f := range frames {
		if f.op == 8 {
			closeSeen = true
			if i != len(frames)-1 {
				sc.violate("%d frame(s) follow the close frame on the wire", len(frames)-1-i)
			}
		}
	}
	msgs, ctls := rfcMessages(frames)
	if werr == nil {
		found := false
		for _, m := range msgs {
			if m.op == 2 && bytes.Equal(m.payload, payload) {
				found = true
			}
		}
		if !found {
			sc.violate("the writer's message was reported sent but is not intact on the wire")
		}
	}
	for i, cl := range callers {
		cnt := 0
		for _, f := range ctls {
			if bytes.Equal(f.payload, cl.payload) {
				cnt++
			}
		}
		switch {
		case cl.short && cnt != 0:
			sc.violate("timed-out WriteControl #%d nevertheless wrote its frame", i)
		case !cl.short && cl.err == nil && cnt != 1:
			sc.violate("WriteControl #%d returned nil but its frame is on the wire %d times", i, cnt)
		case !cl.short && cl.err != nil && cnt != 0:
			sc.violate("WriteControl #%d returned %v but its frame is on the wire", i, cl.err)
		case !cl.short && cl.err != nil && errName(cl.err) != "closeSent":
			sc.violate("WriteControl #%d (long deadline) failed with %v", i, cl.err)
		}
	}
	if closeSeen {
		if after == nil {
			sc.violate("WriteMessage succeeded after a close frame was sent")
		}
	} else if after != nil {
		sc.violate("connection poisoned: WriteMessage after timed-out WriteControls failed with %v", after)
	}
	sc.emit(fmt.Sprintf("sched srv=%d callers=%d", b2i(srv), n), "ok")
	sc.tag(fmt.Sprintf("callers:%d", n))
	if closeSeen {
		sc.tag("close")
	}
	return sc
}

type lockedReader struct {
	mu sync.Mutex
	r  *keySource
}

func (l *lockedReader) Read(p []byte) (int, error) {
	l.mu.Lock()
	defer l.mu.Unlock()
	return l.r.Read(p)
}
