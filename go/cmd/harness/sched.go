package main

import (
	"bytes"
	"fmt"
	"math/rand"
	"net"
	"strings"
	"sync"
	"time"

	"github.com/gorilla/websocket"
)

// ---------------------------------------------------------------------------
// C11 / C09: forced schedules with real goroutines. The transport parks the writer inside Write
// (holding the connection's write mutex) while WriteControl callers arrive; short deadlines must
// time out cleanly, long ones must go through afterwards, frames must stay contiguous and nothing
// may follow a close frame.
// ---------------------------------------------------------------------------

type schedConn struct {
	mu        sync.Mutex
	writes    [][]byte
	gate      chan struct{}
	entered   chan struct{}
	parked    bool
	closed    bool
	failFirst int // >= 0: the parked Write accepts only this many bytes and then fails
	failed    bool
	inWrite   bool   // a Write is parked inside the transport (its caller holds the connection)
	swdDuring int    // SetWriteDeadline calls that arrived while that Write was in flight
	mutated   int    // the bytes handed to the parked Write were different when it was released
	rbuf      []byte // bytes the peer sent (read side), served once; then reads block
}

func (c *schedConn) Write(p []byte) (int, error) {
	c.mu.Lock()
	first := !c.parked
	c.parked = true
	c.mu.Unlock()
	if first {
		c.mu.Lock()
		c.inWrite = true
		c.mu.Unlock()
		before := append([]byte(nil), p...)
		close(c.entered)
		<-c.gate
		c.mu.Lock()
		c.inWrite = false
		if !bytes.Equal(before, p) {
			// a Write owns its argument until it returns: nobody may touch the frame in flight
			c.mutated++
		}
		c.mu.Unlock()
		if c.failFirst >= 0 {
			n := c.failFirst
			if n > len(p) {
				n = len(p)
			}
			c.mu.Lock()
			c.failed = true
			if n > 0 {
				c.writes = append(c.writes, append([]byte(nil), p[:n]...))
			}
			c.mu.Unlock()
			return n, &tErr{id: 555}
		}
	}
	c.mu.Lock()
	c.writes = append(c.writes, append([]byte(nil), p...))
	c.mu.Unlock()
	return len(p), nil
}
func (c *schedConn) Read(p []byte) (int, error) {
	c.mu.Lock()
	if len(c.rbuf) > 0 {
		n := copy(p, c.rbuf)
		c.rbuf = c.rbuf[n:]
		c.mu.Unlock()
		return n, nil
	}
	c.mu.Unlock()
	select {}
}
func (c *schedConn) Close() error                      { c.mu.Lock(); c.closed = true; c.mu.Unlock(); return nil }
func (c *schedConn) LocalAddr() net.Addr               { return tAddr{} }
func (c *schedConn) RemoteAddr() net.Addr              { return tAddr{} }
func (c *schedConn) SetDeadline(t time.Time) error     { return nil }
func (c *schedConn) SetReadDeadline(t time.Time) error { return nil }
func (c *schedConn) SetWriteDeadline(t time.Time) error {
	c.mu.Lock()
	if c.inWrite {
		c.swdDuring++
	}
	c.mu.Unlock()
	return nil
}

// delayPool: a WriteBufferPool whose Put dawdles, which widens the window between a frame's write
// (connection released) and the bookkeeping that follows it in the message path
type delayPool struct{}

func (delayPool) Get() interface{}  { return nil }
func (delayPool) Put(v interface{}) { time.Sleep(3 * time.Millisecond) }

// a reader with the default handlers while the writer sits inside the transport for longer than the
// handlers' own write deadline (1 s): the pong / close echo cannot get the connection, and that must be
// harmless — the reader goes on and delivers what follows (C11 "does not poison the connection")
func runSchedBlockedWriterReader(seed int64, r *rand.Rand, variant int) *scenario {
	sc := &scenario{kind: "sched", seed: seed}
	srv := r.Intn(2) == 0
	sconn := &schedConn{gate: make(chan struct{}), entered: make(chan struct{}), failFirst: -1}
	ks := &keySource{keys: []byte{1, 2, 3, 4, 5, 6, 7, 8}}
	restore := websocket.VerifSetMaskRand(&lockedReader{r: ks})
	defer restore()
	ping := encFrame{fin: true, op: 9, payload: []byte("are-you-there")}
	text := encFrame{fin: true, op: 1, payload: []byte("behind-the-ping")}
	if srv {
		ping.masked, ping.key = true, [4]byte{9, 8, 7, 6}
		text.masked, text.key = true, [4]byte{1, 1, 2, 3}
	}
	sconn.rbuf = append(ping.encode(), text.encode()...)
	if variant == 3 {
		// variant 3: instead of a ping the reader meets a framing violation (RSV2) while the writer is
		// parked and an application WriteControl waits too: the 1002 close and the application's ping
		// both go out intact once the writer lets go
		bad := encFrame{fin: true, rsv2: true, op: 1, payload: []byte("rsv2")}
		if srv {
			bad.masked, bad.key = true, [4]byte{4, 3, 2, 1}
		}
		sconn.rbuf = bad.encode()
	}
	c := websocket.VerifNewConn(sconn, srv, 0, 512, nil, nil, nil)
	// variant 0/1: the writer stays blocked for longer than the pong's one second; the reader must go on.
	// variant 1 also has a far write deadline set by the application (the pong's own deadline is
	// one second whatever the application's write deadline is).
	// variant 2: the writer is released early, while the default pong and an application
	// WriteControl with another payload both wait for the connection: both frames go out intact.
	if variant == 1 {
		c.SetWriteDeadline(time.Now().Add(time.Hour))
	}
	var wg sync.WaitGroup
	var werr error
	wg.Add(1)
	go func() { defer wg.Done(); werr = c.WriteMessage(2, []byte("held-in-the-transport")) }()
	select {
	case <-sconn.entered:
	case <-time.After(30 * time.Second):
		sc.violate("writer never reached the transport")
		return sc
	}
	type res struct {
		t   int
		p   []byte
		err error
	}
	done := make(chan res, 1)
	start := time.Now()
	go func() { t, p, err := c.ReadMessage(); done <- res{t, p, err} }()
	other := []byte("keep-alive-other")
	var oerr error
	if variant == 2 || variant == 3 {
		time.Sleep(40 * time.Millisecond)
		wg.Add(1)
		go func() {
			defer wg.Done()
			oerr = c.WriteControl(websocket.PingMessage, other, time.Now().Add(20*time.Second))
		}()
		time.Sleep(40 * time.Millisecond)
		close(sconn.gate)
	}
	select {
	case x := <-done:
		if variant == 3 {
			if x.err == nil || !strings.HasPrefix(errName(x.err), "proto:") {
				sc.violate("RSV2 frame while the writer was parked: ReadMessage returned (%d, %q, %v), expected a protocol error", x.t, x.p, x.err)
			}
		} else if x.err != nil || x.t != 1 || string(x.p) != "behind-the-ping" {
			sc.violate("writer blocked in the transport for longer than the ping handler's deadline: ReadMessage returned (%d, %q, %v); the message behind the ping must still be delivered", x.t, x.p, x.err)
		}
	case <-time.After(10 * time.Second):
		sc.violate("ReadMessage did not return within 10s while the writer was blocked in the transport (the default pong waits one second at most)")
	}
	if variant != 2 && variant != 3 {
		close(sconn.gate)
	}
	wg.Wait()
	elapsed := time.Since(start)
	if werr != nil {
		sc.violate("the held data frame failed: %v", werr)
	}
	if oerr != nil && !(variant == 3 && errName(oerr) == "closeSent") {
		sc.violate("the application's WriteControl failed: %v", oerr)
	}
	if err := c.WriteMessage(1, []byte("after")); err != nil && variant != 3 {
		sc.violate("connection poisoned by the pong that could not be sent: %v", err)
	}
	if variant == 3 {
		sconn.mu.Lock()
		var wire []byte
		for _, w := range sconn.writes {
			wire = append(wire, w...)
		}
		sconn.mu.Unlock()
		frames, rest, bad := rfcDecode(wire)
		if bad != "" || len(rest) > 0 {
			sc.violate("wire is not a sequence of whole frames: %s, %d stray bytes", bad, len(rest))
		}
		closes, pings, strange := 0, 0, 0
		for _, f := range frames {
			switch {
			case f.op == 8 && len(f.payload) >= 2 && int(f.payload[0])<<8|int(f.payload[1]) == 1002:
				closes++
			case f.op == 9 && bytes.Equal(f.payload, other):
				pings++
			case f.op >= 8:
				strange++
			}
		}
		// the application's ping may lose the race against the close (ErrCloseSent) but never appears twice
		if strange > 0 || pings > 1 || closes > 1 || (closes == 0 && elapsed < 700*time.Millisecond) || (oerr == nil && pings != 1) {
			sc.violate("1002 close and a concurrent WriteControl waited for the connection together: wire has %d close(1002), %d application ping(s) (its WriteControl returned %v), %d other control frame(s); expected one 1002 close, the ping once iff its call returned nil, nothing else", closes, pings, oerr, strange)
		}
		oerr = nil
	}
	if variant == 2 {
		sconn.mu.Lock()
		var wire []byte
		for _, w := range sconn.writes {
			wire = append(wire, w...)
		}
		sconn.mu.Unlock()
		frames, rest, bad := rfcDecode(wire)
		if bad != "" || len(rest) > 0 {
			sc.violate("wire is not a sequence of whole frames: %s, %d stray bytes", bad, len(rest))
		}
		pongs, pings, strange := 0, 0, 0
		for _, f := range frames {
			switch {
			case f.op == 10 && string(f.payload) == "are-you-there":
				pongs++
			case f.op == 9 && bytes.Equal(f.payload, other):
				pings++
			case f.op == 9 || f.op == 10:
				strange++
			}
		}
		if strange > 0 || pings != 1 || pongs > 1 || (pongs == 0 && elapsed < 700*time.Millisecond) {
			sc.violate("default pong and a concurrent WriteControl waited for the connection together: wire has %d pong(s) echoing the ping, %d application ping(s), %d other control frame(s); expected 1, 1, 0", pongs, pings, strange)
		}
	}
	sc.emit(fmt.Sprintf("sched seed=%d srv=%d blocked-writer-reader", seed, b2i(srv)), "ok")
	sc.tag(fmt.Sprintf("blocked-writer-reader:%d", variant))
	return sc
}

// Conn.Close from another goroutine while the writer sits inside the transport in the middle of a
// fragmented message (C11: Close may be called concurrently with everything): Close closes the
// network connection and nothing else — it returns promptly, does not panic, does not write and does
// not touch the frame in flight; the writer's own calls then end however the transport makes them end.
func runSchedCloseDuringWrite(seed int64, r *rand.Rand) *scenario {
	sc := &scenario{kind: "sched", seed: seed}
	srv := r.Intn(2) == 0
	sconn := &schedConn{gate: make(chan struct{}), entered: make(chan struct{}), failFirst: -1}
	ks := &keySource{keys: []byte{1, 2, 3, 4, 5, 6, 7, 8}}
	restore := websocket.VerifSetMaskRand(&lockedReader{r: ks})
	defer restore()
	var pool websocket.BufferPool
	var sp *syncPool
	if r.Intn(2) == 0 {
		sp = &syncPool{}
		pool = sp
	}
	c := websocket.VerifNewConn(sconn, srv, 0, 256, pool, nil, nil)
	if r.Intn(2) == 0 {
		websocket.VerifSetCompression(c, nil)
	}
	payload := make([]byte, 900+r.Intn(600))
	for i := range payload {
		payload[i] = byte(r.Intn(256)) // incompressible: the first fragment is flushed during Write
	}
	var wpanic, cpanic string
	var wg sync.WaitGroup
	wg.Add(1)
	go func() {
		defer wg.Done()
		defer func() {
			if p := recover(); p != nil {
				wpanic = fmt.Sprint(p)
			}
		}()
		w, err := c.NextWriter(2)
		if err != nil {
			return
		}
		w.Write(payload)
		w.Close()
	}()
	select {
	case <-sconn.entered:
	case <-time.After(30 * time.Second):
		sc.violate("writer never reached the transport")
		return sc
	}
	closed := make(chan error, 1)
	go func() {
		defer func() {
			if p := recover(); p != nil {
				cpanic = fmt.Sprint(p)
				closed <- nil
			}
		}()
		closed <- c.Close()
	}()
	select {
	case <-closed:
	case <-time.After(10 * time.Second):
		sc.violate("Conn.Close did not return while the writer was inside the transport")
	}
	sconn.mu.Lock()
	during := len(sconn.writes)
	sconn.mu.Unlock()
	close(sconn.gate)
	wg.Wait()
	if cpanic != "" {
		sc.violate("Conn.Close panicked while the writer was inside the transport: %s", cpanic)
	}
	if wpanic != "" {
		sc.violate("the writer panicked after a concurrent Conn.Close: %s", wpanic)
	}
	if during > 0 {
		sc.violate("Conn.Close wrote %d frame(s) to the transport while another goroutine's Write was in flight", during)
	}
	if sconn.mutated > 0 {
		sc.violate("the frame handed to the transport was modified while its Write was in flight")
	}
	sconn.mu.Lock()
	var wire []byte
	for _, w := range sconn.writes {
		wire = append(wire, w...)
	}
	sconn.mu.Unlock()
	frames, _, bad := rfcDecode(wire)
	if bad != "" {
		sc.violate("wire not decodable after Close during a write: %s", bad)
	}
	nego, _ := websocket.VerifNegotiated(c)
	for _, p := range rfcCheck(frames, !srv, nego) {
		sc.violate("wire violates RFC 6455 after Close during a write: %s", p)
	}
	msgs, _ := rfcMessages(frames)
	for _, m := range msgs {
		if m.complete && m.inflateErr == "" && !bytes.Equal(m.payload, payload) {
			sc.violate("the message on the wire differs from what the writer wrote")
		}
	}
	if sp != nil && sp.gets != sp.puts {
		sc.violate("pool: %d gets, %d puts after the writer closed its message", sp.gets, sp.puts)
	}
	sc.emit(fmt.Sprintf("sched seed=%d srv=%d close-during-write", seed, b2i(srv)), "ok")
	sc.tag("close-during-write")
	return sc
}

// One PreparedMessage, two connections of the same role and settings: A's transport holds the frame
// (inside Write) while B sends the same prepared message. The cached frame is shared; whoever uses it
// must not write to it: the bytes A's transport was given are the same when it lets go, and both
// wires decode to the message (C11 / C19: sharing a PreparedMessage among connections is safe).
func runSchedSharedPrepared(seed int64, r *rand.Rand, srv bool) *scenario {
	sc := &scenario{kind: "sched", seed: seed}
	ks := &keySource{keys: []byte{1, 2, 3, 4, 5, 6, 7, 8, 9, 10, 11, 12}}
	restore := websocket.VerifSetMaskRand(&lockedReader{r: ks})
	defer restore()
	nego := r.Intn(2) == 0
	payload := make([]byte, []int{0, 10, 300, 3000, 70000}[r.Intn(5)])
	for i := range payload {
		payload[i] = byte(i * 7)
	}
	t := 1 + r.Intn(2)
	pm, err := websocket.NewPreparedMessage(t, payload)
	if err != nil {
		sc.violate("NewPreparedMessage: %v", err)
		return sc
	}
	sa := &schedConn{gate: make(chan struct{}), entered: make(chan struct{}), failFirst: -1}
	tb := newTConn(&evlog{})
	tb.quiet = true
	a := websocket.VerifNewConn(sa, srv, 0, 512, nil, nil, nil)
	b := websocket.VerifNewConn(tb, srv, 0, 512, nil, nil, nil)
	if nego {
		websocket.VerifSetCompression(a, nil)
		websocket.VerifSetCompression(b, nil)
	}
	// a first use by B, so that the frame is cached before A takes it
	if r.Intn(2) == 0 {
		if err := b.WritePreparedMessage(pm); err != nil {
			sc.violate("B: WritePreparedMessage: %v", err)
		}
	}
	var aerr error
	var wg sync.WaitGroup
	wg.Add(1)
	go func() { defer wg.Done(); aerr = a.WritePreparedMessage(pm) }()
	select {
	case <-sa.entered:
	case <-time.After(30 * time.Second):
		sc.violate("A never reached the transport")
		return sc
	}
	for k := 0; k < 1+r.Intn(3); k++ {
		if err := b.WritePreparedMessage(pm); err != nil {
			sc.violate("B: WritePreparedMessage while A's frame was in flight: %v", err)
		}
	}
	close(sa.gate)
	wg.Wait()
	if aerr != nil {
		sc.violate("A: WritePreparedMessage: %v", aerr)
	}
	if sa.mutated > 0 {
		sc.violate("the prepared frame A's transport was writing was modified while B sent the same PreparedMessage (the cached frame is shared between connections)")
	}
	check := func(name string, wire []byte) {
		frames, rest, bad := rfcDecode(wire)
		if bad != "" || len(rest) > 0 {
			sc.violate("%s: wire not whole frames (%s, %d stray bytes)", name, bad, len(rest))
			return
		}
		for _, p := range rfcCheck(frames, !srv, nego) {
			sc.violate("%s: %s", name, p)
		}
		msgs, _ := rfcMessages(frames)
		for i, m := range msgs {
			if !m.complete || m.inflateErr != "" || m.op != t || !bytes.Equal(m.payload, payload) {
				sc.violate("%s: message %d on the wire is not the prepared message (%s)", name, i, m.inflateErr)
			}
		}
		if len(msgs) == 0 {
			sc.violate("%s: no message on the wire", name)
		}
	}
	sa.mu.Lock()
	var wa []byte
	for _, w := range sa.writes {
		wa = append(wa, w...)
	}
	sa.mu.Unlock()
	check("A", wa)
	check("B", tb.wire)
	sc.emit(fmt.Sprintf("sched seed=%d srv=%d shared-prepared", seed, b2i(srv)), "ok")
	sc.tag("shared-prepared")
	return sc
}

func runSchedScenario(seed int64) *scenario {
	r := rand.New(rand.NewSource(seed))
	sc := &scenario{kind: "sched", seed: seed}
	srv := r.Intn(2) == 0
	sconn := &schedConn{gate: make(chan struct{}), entered: make(chan struct{}), failFirst: -1}
	if r.Intn(3) == 0 {
		sconn.failFirst = r.Intn(6)
	}
	ks := &keySource{keys: []byte{1, 2, 3, 4, 5, 6, 7, 8}}
	restore := websocket.VerifSetMaskRand(&lockedReader{r: ks})
	defer restore()
	wbuf := []int{16, 125, 512, 4096}[r.Intn(4)]
	// who is parked inside the transport holding the connection:
	//   0 the data writer (WriteMessage)              - WriteControl callers queue behind it
	//   1 a WriteControl(ping)                        - the data writer and other WriteControls queue behind it
	//   2 a close sent through the message path       - WriteControl callers queue behind it
	mode := []int{0, 0, 1, 2}[r.Intn(4)]
	var pool websocket.BufferPool
	if mode == 2 {
		pool = delayPool{}
		if wbuf < 125 {
			wbuf = 125
		}
	}
	c := websocket.VerifNewConn(sconn, srv, 0, wbuf, pool, nil, nil)
	payload := make([]byte, []int{3, 200, 1000, 5000}[r.Intn(4)])
	for i := range payload {
		payload[i] = byte(i)
	}
	parkedCtl := []byte(fmt.Sprintf("parked-%d", seed%1000))
	if mode == 2 {
		parkedCtl = append([]byte{0x03, 0xe8}, parkedCtl...)
	}
	var wg sync.WaitGroup
	var werr error
	wg.Add(1)
	go func() {
		defer wg.Done()
		switch mode {
		case 0:
			werr = c.WriteMessage(2, payload)
		case 1:
			werr = c.WriteControl(websocket.PingMessage, parkedCtl, time.Now().Add(20*time.Second))
		case 2:
			werr = c.WriteMessage(websocket.CloseMessage, parkedCtl)
		}
	}()
	select {
	case <-sconn.entered:
	case <-time.After(30 * time.Second):
		sc.violate("writer never reached the transport")
		return sc
	}
	// the writer now sits inside Write holding the mutex
	n := r.Intn(7)
	type caller struct {
		short   bool
		isData  bool // the data writer, queued behind a parked WriteControl (mode 1)
		isClose bool
		payload []byte
		err     error
		took    time.Duration
		done    chan struct{}
	}
	var callers []*caller
	closeCount := 0
	if mode == 2 {
		closeCount = 1
	}
	if mode == 1 {
		n++
	}
	for i := 0; i < n; i++ {
		cl := &caller{short: r.Intn(2) == 0, done: make(chan struct{})}
		cl.payload = []byte(fmt.Sprintf("ctl-%d-%d", seed%1000, i))
		if mode == 1 && i == 0 {
			cl.short, cl.isData, cl.payload = false, true, payload
		}
		if !cl.short && !cl.isData && r.Intn(4) == 0 && closeCount == 0 {
			cl.isClose = true
			closeCount++
			cl.payload = append([]byte{0x03, 0xe8}, cl.payload...)
		}
		callers = append(callers, cl)
		go func(cl *caller) {
			d := 20 * time.Second
			if cl.short {
				d = 25 * time.Millisecond
			}
			t := websocket.PingMessage
			if cl.isClose {
				t = websocket.CloseMessage
			}
			s := time.Now()
			if cl.isData {
				cl.err = c.WriteMessage(2, cl.payload)
			} else {
				cl.err = c.WriteControl(t, cl.payload, time.Now().Add(d))
			}
			cl.took = time.Since(s)
			close(cl.done)
		}(cl)
	}
	// short-deadline callers must return (with a timeout) although the writer is still blocked
	for i, cl := range callers {
		if !cl.short {
			continue
		}
		select {
		case <-cl.done:
			if cl.err == nil || errName(cl.err) != "writeTimeout" {
				sc.violate("WriteControl #%d with a 25ms deadline returned %v while the writer held the connection", i, cl.err)
			}
		case <-time.After(30 * time.Second):
			sc.violate("WriteControl #%d with a 25ms deadline did not return within 4s while the writer was blocked in the transport", i)
		}
	}
	close(sconn.gate)
	wg.Wait()
	for i, cl := range callers {
		if cl.short {
			continue
		}
		select {
		case <-cl.done:
		case <-time.After(30 * time.Second):
			sc.violate("WriteControl #%d (long deadline) never returned after the writer finished", i)
		}
	}
	// afterwards: not poisoned, unless a close went out
	after := c.WriteMessage(1, []byte("after"))
	if sconn.failFirst >= 0 {
		// the parked write failed: fail-stop. Nothing but the accepted prefix may be on the wire and
		// every caller that was queued behind it must see an error.
		sconn.mu.Lock()
		nw := len(sconn.writes)
		total := 0
		for _, w := range sconn.writes {
			total += len(w)
		}
		sconn.mu.Unlock()
		if werr == nil {
			sc.violate("the transport failed inside the writer's frame but WriteMessage returned nil")
		}
		if total > sconn.failFirst || nw > 1 {
			sc.violate("after a failed transport write %d more bytes in %d writes reached the transport (fail-stop violated)", total-sconn.failFirst, nw)
		}
		for i, cl := range callers {
			if !cl.short && cl.err == nil {
				sc.violate("WriteControl #%d queued behind a failed write returned nil", i)
			}
		}
		if after == nil {
			sc.violate("WriteMessage succeeded after a transport write had failed")
		}
		if sconn.swdDuring > 0 {
			sc.violate("SetWriteDeadline reached the transport %d times while another caller's Write was in flight", sconn.swdDuring)
		}
		sc.emit(fmt.Sprintf("sched seed=%d srv=%d callers=%d fail=%d", seed, b2i(srv), n, sconn.failFirst), "ok")
		sc.tag("fail")
		return sc
	}
	sconn.mu.Lock()
	writes := sconn.writes
	sconn.mu.Unlock()
	var wire []byte
	closeSeen := false
	for i, w := range writes {
		fr, rest, bad := rfcDecode(w)
		if bad != "" || len(rest) > 0 || len(fr) == 0 {
			// the server's two-buffer write of one frame is split in two transport writes: join with the next
			if i+1 < len(writes) {
				j := append(append([]byte(nil), w...), writes[i+1]...)
				if f2, r2, b2 := rfcDecode(j); b2 == "" && len(r2) == 0 && len(f2) == 1 {
					wire = append(wire, w...)
					continue
				}
			}
			if i > 0 {
				j := append(append([]byte(nil), writes[i-1]...), w...)
				if f2, r2, b2 := rfcDecode(j); b2 == "" && len(r2) == 0 && len(f2) == 1 {
					wire = append(wire, w...)
					continue
				}
			}
			sc.violate("transport write %d is not a whole frame (another writer's bytes would land inside it)", i)
		}
		wire = append(wire, w...)
	}
	frames, rest, bad := rfcDecode(wire)
	if bad != "" || len(rest) > 0 {
		sc.violate("interleaved wire is not a sequence of whole frames: %s, %d stray bytes", bad, len(rest))
	}
	for _, p := range rfcCheck(frames, !srv, false) {
		sc.violate("interleaved wire violates RFC 6455: %s", p)
	}
	for i, f := range frames {
		if f.op == 8 {
			closeSeen = true
			if i != len(frames)-1 {
				sc.violate("%d frame(s) follow the close frame on the wire", len(frames)-1-i)
			}
		}
	}
	msgs, ctls := rfcMessages(frames)
	dataOnWire := func(p []byte) int {
		k := 0
		for _, m := range msgs {
			if m.op == 2 && m.complete && bytes.Equal(m.payload, p) {
				k++
			}
		}
		return k
	}
	ctlOnWire := func(p []byte) int {
		k := 0
		for _, f := range ctls {
			if bytes.Equal(f.payload, p) {
				k++
			}
		}
		return k
	}
	if werr == nil {
		if mode == 0 && dataOnWire(payload) != 1 {
			sc.violate("the writer's message was reported sent but is not intact on the wire")
		}
		if mode != 0 && ctlOnWire(parkedCtl) != 1 {
			sc.violate("the parked control/close frame was reported sent but is on the wire %d times", ctlOnWire(parkedCtl))
		}
	}
	if sconn.swdDuring > 0 {
		sc.violate("SetWriteDeadline reached the transport %d times while another caller's Write was in flight: a caller that does not hold the connection changed the deadline of the frame being written", sconn.swdDuring)
	}
	if sconn.mutated > 0 {
		sc.violate("the frame handed to the transport was modified while its Write was in flight")
	}
	for i, cl := range callers {
		cnt := ctlOnWire(cl.payload)
		if cl.isData {
			cnt = dataOnWire(cl.payload)
		}
		switch {
		case cl.short && cnt != 0:
			sc.violate("timed-out WriteControl #%d nevertheless wrote its frame", i)
		case !cl.short && cl.err == nil && cnt != 1:
			sc.violate("WriteControl #%d returned nil but its frame is on the wire %d times", i, cnt)
		case !cl.short && cl.err != nil && cnt != 0:
			sc.violate("WriteControl #%d returned %v but its frame is on the wire", i, cl.err)
		case !cl.short && cl.err != nil && errName(cl.err) != "closeSent":
			sc.violate("WriteControl #%d (long deadline) failed with %v", i, cl.err)
		}
	}
	if closeSeen {
		if after == nil {
			sc.violate("WriteMessage succeeded after a close frame was sent")
		}
	} else if after != nil {
		sc.violate("connection poisoned: WriteMessage after timed-out WriteControls failed with %v", after)
	}
	sc.emit(fmt.Sprintf("sched seed=%d srv=%d callers=%d", seed, b2i(srv), n), "ok")
	sc.tag(fmt.Sprintf("callers:%d", n))
	sc.tag(fmt.Sprintf("parked:%d", mode))
	if closeSeen {
		sc.tag("close")
	}
	return sc
}

type lockedReader struct {
	mu sync.Mutex
	r  *keySource
}

func (l *lockedReader) Read(p []byte) (int, error) {
	l.mu.Lock()
	defer l.mu.Unlock()
	return l.r.Read(p)
}

// ---------------------------------------------------------------------------
// C19 / C20 / C11: many goroutines, each with its own connection, sharing one PreparedMessage (or
// several) and one write buffer pool. Judged by the RFC oracle per connection; meaningful mostly
// under the race detector (thorough tier).
// ---------------------------------------------------------------------------

type syncPool struct {
	mu   sync.Mutex
	free []interface{}
	gets int
	puts int
	bad  int
}

func (p *syncPool) Get() interface{} {
	p.mu.Lock()
	defer p.mu.Unlock()
	p.gets++
	if len(p.free) == 0 {
		return nil
	}
	v := p.free[len(p.free)-1]
	p.free = p.free[:len(p.free)-1]
	if b := peekPooled(v); b != nil {
		for _, x := range b {
			if x != 0xEE {
				p.bad++
				break
			}
		}
	}
	return v
}

func (p *syncPool) Put(v interface{}) {
	if b := peekPooled(v); b != nil {
		for i := range b {
			b[i] = 0xEE
		}
	}
	p.mu.Lock()
	p.puts++
	p.free = append(p.free, v)
	p.mu.Unlock()
}

func runConcScenario(seed int64) *scenario {
	r := rand.New(rand.NewSource(seed))
	sc := &scenario{kind: "conc", seed: seed}
	ks := &keySource{keys: []byte{11, 22, 33, 44}}
	restore := websocket.VerifSetMaskRand(&lockedReader{r: ks})
	defer restore()
	pool := &syncPool{}
	nconn := 2 + r.Intn(6)
	wbuf := []int{16, 125, 1024}[r.Intn(3)]
	type pmDef struct {
		t    int
		data []byte
		pm   *websocket.PreparedMessage
	}
	var pms []pmDef
	for i := 0; i < 1+r.Intn(3); i++ {
		t := []int{1, 2, 9}[r.Intn(3)]
		n := []int{0, 5, 100, 5000, 9000}[r.Intn(5)]
		if t == 9 {
			n = r.Intn(126)
		}
		d := make([]byte, n)
		for j := range d {
			d[j] = byte('A' + i + j%7)
		}
		pm, err := websocket.NewPreparedMessage(t, d)
		if err != nil {
			sc.violate("NewPreparedMessage: %v", err)
			return sc
		}
		pms = append(pms, pmDef{t, d, pm})
	}
	type cstate struct {
		srv, nego bool
		t         *TConn
		c         *websocket.Conn
		sent      []apiMsg
		err       error
	}
	conns := make([]*cstate, nconn)
	slowT := r.Intn(2) == 0
	mixed := r.Intn(3) == 0
	if mixed {
		sc.tag("conc:mixed-sizes")
	}
	for i := range conns {
		cs := &cstate{srv: r.Intn(2) == 0, nego: r.Intn(2) == 0, t: newTConn(&evlog{})}
		cs.t.quiet = true
		cs.t.slow = slowT
		wb := wbuf
		if mixed {
			// connections with different WriteBufferSize on one pool (the documentation advises one
			// pool per size; taking and returning buffers must balance all the same)
			wb = []int{16, 125, 1024, 4096}[r.Intn(4)]
		}
		cs.c = websocket.VerifNewConn(cs.t, cs.srv, 0, wb, pool, nil, nil)
		if cs.nego {
			websocket.VerifSetCompression(cs.c, nil)
		}
		conns[i] = cs
	}
	seeds := make([]int64, nconn)
	for i := range seeds {
		seeds[i] = r.Int63()
	}
	var wg sync.WaitGroup
	for i, cs := range conns {
		wg.Add(1)
		go func(cs *cstate, sd int64) {
			defer wg.Done()
			lr := rand.New(rand.NewSource(sd))
			for k := 0; k < 12; k++ {
				switch lr.Intn(4) {
				case 0:
					cs.c.EnableWriteCompression(lr.Intn(2) == 0)
				case 1:
					p := make([]byte, lr.Intn(600))
					for j := range p {
						p[j] = byte(k)
					}
					if err := cs.c.WriteMessage(2, p); err != nil {
						cs.err = err
						return
					}
					cs.sent = append(cs.sent, apiMsg{t: 2, payload: p})
				default:
					d := pms[lr.Intn(len(pms))]
					if err := cs.c.WritePreparedMessage(d.pm); err != nil {
						cs.err = err
						return
					}
					cs.sent = append(cs.sent, apiMsg{t: d.t, payload: d.data})
				}
			}
		}(cs, seeds[i])
	}
	wg.Wait()
	for i, cs := range conns {
		if cs.err != nil {
			sc.violate("conn %d: write failed: %v", i, cs.err)
			continue
		}
		if cs.t.mutated > 0 {
			sc.violate("conn %d: bytes handed to the transport were modified %d times while the Write was in flight (a shared frame or buffer was written to by another connection)", i, cs.t.mutated)
		}
		frames, rest, bad := rfcDecode(cs.t.wire)
		if bad != "" || len(rest) > 0 {
			sc.violate("conn %d: wire not whole frames (%s, %d stray bytes): buffers or prepared frames were shared unsafely", i, bad, len(rest))
			continue
		}
		for _, p := range rfcCheck(frames, !cs.srv, cs.nego) {
			sc.violate("conn %d: %s", i, p)
		}
		msgs, ctls := rfcMessages(frames)
		var wd, wc []apiMsg
		for _, m := range cs.sent {
			if m.t == 1 || m.t == 2 {
				wd = append(wd, m)
			} else {
				wc = append(wc, m)
			}
		}
		if len(msgs) != len(wd) || len(ctls) != len(wc) {
			sc.violate("conn %d: %d/%d messages and %d/%d control frames on the wire", i, len(msgs), len(wd), len(ctls), len(wc))
			continue
		}
		for j, m := range msgs {
			if m.inflateErr != "" || m.op != wd[j].t || !bytes.Equal(m.payload, wd[j].payload) {
				sc.violate("conn %d: message %d differs from what was sent (%s)", i, j, m.inflateErr)
			}
		}
		for j, f := range ctls {
			if f.op != wc[j].t || !bytes.Equal(f.payload, wc[j].payload) {
				sc.violate("conn %d: control frame %d differs", i, j)
			}
		}
	}
	if pool.bad > 0 {
		sc.violate("a pooled buffer was modified while it was in the pool (%d times)", pool.bad)
	}
	if pool.gets != pool.puts {
		sc.violate("pool: %d gets, %d puts after all messages ended", pool.gets, pool.puts)
	}
	sc.emit(fmt.Sprintf("sched seed=%d conc=%d", seed, nconn), "ok")
	return sc
}
