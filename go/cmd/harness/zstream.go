package main

import (
	"bytes"
	"compress/flate"
	"fmt"
	"io"
	"math/rand"
	"runtime"
	"strings"

	"github.com/gorilla/websocket"
)

// ---------------------------------------------------------------------------
// zcut (C03 / C05, oracle only): streams of compressed and uncompressed messages — deflate streams of
// every shape a conformant peer may produce (sync-flushed, several blocks, a final BFINAL block) — cut
// at any offset by EOF / an error / a timeout / io.ErrUnexpectedEOF, alone or together with the last
// bytes, read through ReadMessage, NextReader + ReadAll, or JoinMessages. compress/flate is real
// here, so the model (for which inflate is environment) is not consulted: the oracle alone judges.
//   * every message that had fully arrived before the transport ended is delivered complete and
//     byte-identical, whatever API is used;
//   * no message is reported complete unless all its frames arrived; what is delivered of a cut
//     message is a prefix of it;
//   * through JoinMessages the bytes delivered are a prefix of payload₁+term+payload₂+term+… that
//     contains at least every whole message.
// ---------------------------------------------------------------------------

func deflateFinal(p []byte, level int) []byte {
	// a deflate stream that ends in a BFINAL=1 block, followed by the empty stored block header byte that
	// RFC 7692 7.2.3.4 asks for (the receiver appends 00 00 ff ff)
	var buf bytes.Buffer
	fw, _ := flate.NewWriter(&buf, level)
	fw.Write(p)
	fw.Close()
	return append(buf.Bytes(), 0x00)
}

// zTap sits between the decompressor and the message reader: it records the size of every read
// request and whether compress/flate (phase 0) or the drain that follows the end of the deflate
// stream (phase 1: no flate frame on the call stack) made it.
type zTap struct {
	r       io.Reader
	reqs    []int
	drain   []int
	lastErr error
}

func (t *zTap) Read(p []byte) (int, error) {
	inFlate := false
	pcs := make([]uintptr, 24)
	fr := runtime.CallersFrames(pcs[:runtime.Callers(2, pcs)])
	for {
		f, more := fr.Next()
		if strings.HasPrefix(f.Function, "compress/flate.") {
			inFlate = true
			break
		}
		if !more {
			break
		}
	}
	if len(p) > 0 {
		if inFlate {
			t.reqs = append(t.reqs, len(p))
		} else {
			t.drain = append(t.drain, len(p))
		}
	}
	n, err := t.r.Read(p)
	if err != nil && err != io.EOF {
		t.lastErr = err
	}
	return n, err
}

type zMsg struct {
	compressed bool
	t          int
	plain      []byte
	end        int // offset in the stream just after its last frame
}

func runZCutScenario(seed int64) *scenario {
	r := rand.New(rand.NewSource(seed))
	sc := &scenario{kind: "zcut", seed: seed}
	srv := r.Intn(2) == 0
	var stream []byte
	var msgs []zMsg
	key := func() [4]byte {
		return [4]byte{byte(r.Intn(256)), byte(r.Intn(256)), byte(r.Intn(256)), byte(r.Intn(256))}
	}
	add := func(f encFrame) {
		if srv {
			f.masked = true
			f.key = key()
		}
		stream = append(stream, f.encode()...)
	}
	nmsg := 1 + r.Intn(4)
	for i := 0; i < nmsg; i++ {
		n := []int{0, 1, 5, 60, 300, 1500, 5000}[r.Intn(7)]
		plain := make([]byte, n)
		for j := range plain {
			plain[j] = byte('a' + (j*7+i)%23)
		}
		t := 1 + r.Intn(2)
		raw := plain
		compressed := r.Intn(4) > 0
		shape := "plain"
		if compressed {
			lvl := []int{-2, 0, 1, 6, 9}[r.Intn(5)]
			switch r.Intn(3) {
			case 0:
				raw, shape = deflateBytes(plain, lvl, 0), "sync"
			case 1:
				raw, shape = deflateBytes(plain, lvl, 1), "blocks"
			default:
				raw, shape = deflateFinal(plain, lvl), "bfinal"
			}
		}
		sc.tag("z:" + shape)
		// fragmentation: random split points, or ("tail") everything but the last byte, the last
		// byte on its own, then one or two empty continuation frames — the frames after the
		// deflate stream's end must still arrive for the message to be complete
		var parts [][]byte
		if compressed && len(raw) > 1 && r.Intn(3) == 0 {
			parts = [][]byte{raw[:len(raw)-1], raw[len(raw)-1:]}
			for k := 1 + r.Intn(2); k > 0; k-- {
				parts = append(parts, nil)
			}
			sc.tag("z:tailfrags")
		} else {
			nfrag := []int{1, 1, 2, 3}[r.Intn(4)]
			rest := raw
			for k := 0; k < nfrag; k++ {
				m := len(rest)
				if k < nfrag-1 {
					m = r.Intn(len(rest) + 1)
				}
				parts = append(parts, rest[:m])
				rest = rest[m:]
			}
		}
		for k, part := range parts {
			op := 0
			if k == 0 {
				op = t
			}
			add(encFrame{fin: k == len(parts)-1, rsv1: compressed && k == 0, op: op, payload: part})
			if k < len(parts)-1 && r.Intn(3) == 0 {
				add(encFrame{fin: true, op: 9 + r.Intn(2), payload: []byte("c")})
			}
		}
		msgs = append(msgs, zMsg{compressed: compressed, t: t, plain: plain, end: len(stream)})
	}
	cut := len(stream)
	if r.Intn(4) > 0 {
		cut = r.Intn(len(stream) + 1)
		if r.Intn(3) == 0 {
			// inside the last few bytes of a message
			e := msgs[r.Intn(len(msgs))].end
			if d := 1 + r.Intn(8); e-d >= 0 {
				cut = e - d
			}
		}
	}
	log := &evlog{}
	t := newTConn(log)
	t.quiet = true
	// chunking
	b := append([]byte(nil), stream[:cut]...)
	for len(b) > 0 {
		n := []int{1, 2, 7, 64, 500, 4096, len(b)}[r.Intn(7)]
		if n > len(b) {
			n = len(b)
		}
		t.chunks = append(t.chunks, b[:n])
		b = b[n:]
	}
	termName := "eof"
	switch r.Intn(4) {
	case 0:
		t.term, termName = &tErr{id: 77}, "err"
	case 1:
		t.term, termName = &tErr{id: 78, timeout: true}, "timeout"
	case 2:
		t.term, termName = io.ErrUnexpectedEOF, "io.ErrUnexpectedEOF"
	}
	t.together = len(t.chunks) > 0 && r.Intn(2) == 0
	rbuf := []int{0, 125, 200, 512, 4096}[r.Intn(5)]
	api := r.Intn(3)
	// NextReader + io.ReadAll with a transport ending the model knows is also a correspondence
	// scenario: the decompressor's read requests are recorded (zTap) and handed to the model as
	// environment answers; the model (zReadToEnd) predicts whether the message is reported complete
	// and, if not, with which error
	scripted := api == 1 && termName != "io.ErrUnexpectedEOF"
	ks := &keySource{keys: []byte{3, 1, 4, 1, 5, 9, 2, 6}}
	restore := websocket.VerifSetMaskRand(ks)
	defer restore()
	c := websocket.VerifNewConn(t, srv, rbuf, 64, nil, nil, nil)
	websocket.VerifSetCompression(c, nil)
	var tap *zTap
	websocket.VerifTapDecompression(c, func(rd io.Reader) io.Reader { tap = &zTap{r: rd}; return tap })
	desc := fmt.Sprintf("zcut srv=%d msgs=%d cut=%d/%d term=%s tog=%d rbuf=%d api=%d", b2i(srv), nmsg, cut, len(stream), termName, b2i(t.together), rbuf, api)
	line := func(res string) string {
		if evs := log.take(); len(evs) > 0 {
			return res + " | " + joinEvs(evs)
		}
		return res
	}
	if scripted {
		t.quiet = false
		logDefaultHandlers(c, log)
		sc.emit("reset keys="+hx(ks.keys)+" caps="+readAllCapsStr, "ok")
		sc.emit(fmt.Sprintf("conn c0 srv=%d wbuf=64 pool=0 nego=1 rbuf=%d", b2i(srv), rbuf), "ok")
		var parts []string
		for _, ch := range t.chunks {
			parts = append(parts, hx(ch))
		}
		cs := strings.Join(parts, ",")
		if cs == "" {
			cs = "-"
		}
		termTok := "eof"
		if te, ok := t.term.(*tErr); ok {
			termTok = fmt.Sprintf("err:%d", te.id)
		}
		sc.emit(fmt.Sprintf("feed c0 %s term=%s tog=%d", cs, termTok, b2i(t.together)), "ok")
		sc.tag("zcut:scripted")
	} else {
		sc.emit("sched "+strings.ReplaceAll(desc, " ", "_"), "ok")
	}
	sc.tag(fmt.Sprintf("api:%d", api))
	// messages that had fully arrived BEFORE the failing transport read: when a non-EOF error comes
	// together with the last bytes, what that last read delivered does not count
	arrived := cut
	if t.together && t.term != nil && len(t.chunks) > 0 {
		arrived = cut - len(t.chunks[len(t.chunks)-1])
	}
	whole := 0
	for _, m := range msgs {
		if m.end <= arrived {
			whole++
		}
	}
	fail := func(f string, a ...interface{}) { sc.violate(desc+": "+f, a...) }
	defer func() {
		if p := recover(); p != nil {
			fail("panic: %v", p)
		}
	}()
	if api == 2 {
		term := []string{"", "\n", "--"}[r.Intn(3)]
		var want []byte
		var wantWhole int
		for i, m := range msgs {
			want = append(want, m.plain...)
			want = append(want, term...)
			if i < whole {
				wantWhole = len(want)
			}
		}
		jr := websocket.JoinMessages(c, term)
		var got []byte
		buf := make([]byte, []int{1, 3, 64, 512, 4096, 70000}[r.Intn(6)])
		var err error
		for i := 0; i < 200000; i++ {
			var n int
			n, err = jr.Read(buf)
			got = append(got, buf[:n]...)
			if err != nil {
				break
			}
		}
		if !bytes.HasPrefix(want, got) {
			fail("JoinMessages(term %q) delivered %d bytes that are not a prefix of payload1+term+payload2+term…", term, len(got))
		}
		if len(got) < wantWhole {
			fail("JoinMessages(term %q) delivered only %d bytes although %d whole messages (%d bytes with terminators) had arrived before the transport ended; it stopped with %v", term, len(got), whole, wantWhole, err)
		}
		if err == nil {
			fail("JoinMessages stopped without an error")
		}
		if err == io.EOF && t.term != nil {
			// a clean end of the joined stream (io.EOF) is what a reader of it takes for "no more messages";
			// it can only be right when the transport itself ended cleanly
			fail("JoinMessages ended with io.EOF after %d of %d bytes although the transport failed with %v", len(got), len(want), t.term)
		}
		prevEnd := 0
		for i, m := range msgs {
			if err == io.EOF && prevEnd < cut && cut < m.end {
				// C05: the transport ended (however) strictly inside message i: the joined stream must end with
				// an error a reader cannot mistake for "no more messages"
				fail("JoinMessages ended with io.EOF after %d bytes although the transport ended inside message %d (offset %d of %d..%d): a partial message passes for the clean end of the stream", len(got), i, cut, prevEnd, m.end)
			}
			prevEnd = m.end
		}
		if err == io.EOF && len(got) < len(want) && cut == len(stream) {
			fail("JoinMessages ended with io.EOF after %d bytes although all %d messages (%d bytes with terminators) had arrived", len(got), len(msgs), len(want))
		}
		return sc
	}
	delivered := 0
	for i := 0; i < len(msgs)+2; i++ {
		var mt int
		var p []byte
		var err error
		if api == 0 {
			mt, p, err = c.ReadMessage()
		} else {
			var rd io.Reader
			tap = nil
			mt, rd, err = c.NextReader()
			if scripted {
				if err != nil {
					sc.emit("nr c0", line("err "+errName(err)))
				} else {
					sc.emit("nr c0", line(fmt.Sprintf("ok %d v%d z=%d", mt, i, b2i(tap != nil))))
				}
			}
			if err == nil {
				if scripted && tap == nil {
					// an uncompressed message: fixed request size, as the model's readAll
					buf := make([]byte, 512)
					for {
						var n int
						n, err = rd.Read(buf)
						p = append(p, buf[:n]...)
						if err != nil {
							break
						}
					}
					en := "ok"
					if err == io.EOF {
						err = nil
					} else {
						en = errName(err)
					}
					sc.emit(fmt.Sprintf("ra c0 v%d 512", i), line(hx(p)+" "+en))
				} else {
					p, err = io.ReadAll(rd)
					if scripted {
						// environment answers: what compress/flate asked for, whether it accepted the
						// stream, the request size of the drain
						okTok := 1
						if err != nil && tap.lastErr == nil {
							okTok = 0 // compress/flate itself refused the data
						}
						dk := 8192
						if len(tap.drain) > 0 {
							dk = tap.drain[0]
						}
						var rq []string
						for _, k := range tap.reqs {
							rq = append(rq, fmt.Sprint(k))
						}
						rqs := strings.Join(rq, ",")
						if rqs == "" {
							rqs = "-"
						}
						res := "complete"
						if err != nil {
							res = "err " + errName(err)
						}
						sc.emit(fmt.Sprintf("zr c0 v%d reqs=%s ok=%d drain=%d", i, rqs, okTok, dk), line(res))
						if len(tap.drain) > 0 {
							sc.tag("zcut:drained")
						}
						for _, k := range tap.drain {
							if k != dk {
								sc.tag("zcut:mixed-drain-sizes")
							}
						}
					}
				}
			}
		}
		if err != nil {
			if i < whole {
				fail("message %d had fully arrived (ends at offset %d) but reading it failed with %v", i, msgs[i].end, err)
			}
			if i < len(msgs) && len(p) > 0 && !bytes.HasPrefix(msgs[i].plain, p) {
				fail("the part of cut message %d that was delivered is not a prefix of it", i)
			}
			// the error is permanent
			_, _, e2 := c.NextReader()
			if e2 == nil {
				fail("NextReader succeeded after the connection had failed with %v", err)
			} else if scripted {
				sc.emit("nr c0", line("err "+errName(e2)))
			}
			break
		}
		if i >= len(msgs) {
			fail("a message was delivered beyond the %d that were sent", len(msgs))
			break
		}
		if msgs[i].end > cut {
			fail("message %d reported complete (%d bytes, err nil) although its last frame never arrived (stream cut at %d, message ends at %d): a partially received message must end with a non-nil error other than io.EOF", i, len(p), cut, msgs[i].end)
		}
		if mt != msgs[i].t || !bytes.Equal(p, msgs[i].plain) {
			fail("message %d arrived as type %d with %d bytes, sent type %d with %d bytes", i, mt, len(p), msgs[i].t, len(msgs[i].plain))
		}
		delivered++
	}
	if delivered < whole {
		fail("only %d of the %d messages that had fully arrived were delivered", delivered, whole)
	}
	if scripted {
		sc.emit("wire c0", "ok "+hx(t.wire))
	}
	return sc
}
