package main

import (
	"fmt"
	"go/ast"
	"go/token"
	"sort"
	"strings"
)

// ---------------------------------------------------------------------------
// G4: ordered skeletons of the critical functions, recognised statement by
// statement; G5: site inventories.
// ---------------------------------------------------------------------------

func norm(s string) string {
	return strings.Join(strings.Fields(s), " ")
}

func leanStr(s string) string {
	s = strings.ReplaceAll(s, "\\", "\\\\")
	s = strings.ReplaceAll(s, "\"", "\\\"")
	s = strings.ReplaceAll(s, "\n", " ")
	return "\"" + s + "\""
}

// recogniseLockStmts maps the statements of Conn.write / the tail of
// Conn.WriteControl to lock-protocol actions.
func (g *gen) lockSkeleton(stmts []ast.Stmt) []string {
	var acts []string
	i := 0
	for i < len(stmts) {
		t := norm(g.p.text(stmts[i]))
		switch {
		case t == "<-c.mu":
			acts = append(acts, ".acquire")
		case strings.HasPrefix(t, "if deadline.IsZero() { <-c.mu } else {") && strings.Contains(t, "return errWriteTimeout") && strings.Contains(t, "case <-c.mu:"):
			// timed acquisition; every exit without the lock returns errWriteTimeout without touching writeErr
			if strings.Contains(t, "writeFatal") || strings.Contains(t, "c.conn.") {
				acts = append(acts, ".unknown "+leanStr(t))
			} else {
				acts = append(acts, ".acquireTimed")
			}
		case t == "defer func() { c.mu <- struct{}{} }()":
			acts = append(acts, ".deferRelease")
		case t == "c.writeErrMu.Lock()" && i+3 < len(stmts) &&
			norm(g.p.text(stmts[i+1])) == "err := c.writeErr" &&
			norm(g.p.text(stmts[i+2])) == "c.writeErrMu.Unlock()" &&
			norm(g.p.text(stmts[i+3])) == "if err != nil { return err }":
			acts = append(acts, ".checkErr")
			i += 3
		case t == "if err := c.conn.SetWriteDeadline(deadline); err != nil { return c.writeFatal(err) }":
			acts = append(acts, ".setDeadline")
		case t == "if len(buf1) == 0 { _, err = c.conn.Write(buf0) } else { err = c.writeBufs(buf0, buf1) }":
			acts = append(acts, ".write")
		case t == "if err != nil { return c.writeFatal(err) }":
			acts = append(acts, ".checkWrite")
		case t == "if _, err = c.conn.Write(buf); err != nil { return c.writeFatal(err) }":
			acts = append(acts, ".write", ".checkWrite")
		case t == "if frameType == CloseMessage { _ = c.writeFatal(ErrCloseSent) }" || t == "if messageType == CloseMessage { _ = c.writeFatal(ErrCloseSent) }":
			acts = append(acts, ".markClose")
		case t == "return nil" || t == "return err":
			acts = append(acts, ".ret")
		default:
			acts = append(acts, ".unknown "+leanStr(t))
		}
		i++
	}
	return acts
}

// the part of WriteControl before the lock: validation and frame building
func (g *gen) controlPrefix(stmts []ast.Stmt) ([]string, int) {
	var acts []string
	for i, s := range stmts {
		t := norm(g.p.text(s))
		switch {
		case t == "if !isControl(messageType) { return errBadWriteOpCode }":
			acts = append(acts, ".validateType")
		case t == "if len(data) > maxControlFramePayloadSize { return errInvalidControlFrame }":
			acts = append(acts, ".validateLen")
		case strings.HasPrefix(t, "if deadline.IsZero()"):
			return acts, i
		case strings.Contains(t, "c.conn.") || strings.Contains(t, "c.mu") || strings.Contains(t, "writeErr") || strings.Contains(t, "writeFatal"):
			acts = append(acts, ".unknown "+leanStr(t))
		default:
			// frame construction: local computation only
			if len(acts) == 0 || acts[len(acts)-1] != ".build" {
				acts = append(acts, ".build")
			}
		}
	}
	return acts, len(stmts)
}

type hdrCheck struct {
	path string
	msg  string
}

// headerChecks lists every `errors = append(errors, <msg>)` in advanceFrame with the chain of
// conditions guarding it, in source order.
func (g *gen) headerChecks() []hdrCheck {
	fd := g.p.funcs["Conn.advanceFrame"]
	var out []hdrCheck
	if fd == nil {
		g.fail("Conn.advanceFrame not found")
		return nil
	}
	var walk func(stmts []ast.Stmt, path []string)
	walk = func(stmts []ast.Stmt, path []string) {
		for _, s := range stmts {
			switch x := s.(type) {
			case *ast.AssignStmt:
				t := norm(g.p.text(x))
				if strings.HasPrefix(t, "errors = append(errors, ") {
					msg := strings.TrimSuffix(strings.TrimPrefix(t, "errors = append(errors, "), ")")
					out = append(out, hdrCheck{strings.Join(path, " && "), msg})
				}
			case *ast.IfStmt:
				c := norm(g.p.text(x.Cond))
				walk(x.Body.List, append(append([]string{}, path...), c))
				if x.Else != nil {
					switch e := x.Else.(type) {
					case *ast.BlockStmt:
						walk(e.List, append(append([]string{}, path...), "!("+c+")"))
					case *ast.IfStmt:
						walk([]ast.Stmt{e}, append(append([]string{}, path...), "!("+c+")"))
					}
				}
			case *ast.SwitchStmt:
				tag := ""
				if x.Tag != nil {
					tag = norm(g.p.text(x.Tag))
				}
				for _, cc := range x.Body.List {
					c := cc.(*ast.CaseClause)
					var vals []string
					for _, e := range c.List {
						vals = append(vals, norm(g.p.text(e)))
					}
					label := "switch " + tag + " default"
					if len(vals) > 0 {
						label = "switch " + tag + " case " + strings.Join(vals, ",")
					}
					walk(c.Body, append(append([]string{}, path...), label))
				}
			case *ast.BlockStmt:
				walk(x.List, path)
			}
		}
	}
	walk(fd.Body.List, nil)
	return out
}

// flushFrame length switch: thresholds and framePos deltas
func (g *gen) lengthSwitch() []string {
	fd := g.p.funcs["messageWriter.flushFrame"]
	var rows []string
	if fd == nil {
		g.fail("messageWriter.flushFrame not found")
		return nil
	}
	ast.Inspect(fd, func(n ast.Node) bool {
		sw, ok := n.(*ast.SwitchStmt)
		if !ok || sw.Tag != nil {
			return true
		}
		for _, cc := range sw.Body.List {
			c := cc.(*ast.CaseClause)
			cond := "default"
			if len(c.List) > 0 {
				cond = norm(g.p.text(c.List[0]))
			}
			var body []string
			for _, s := range c.Body {
				body = append(body, norm(g.p.text(s)))
			}
			rows = append(rows, cond+" => "+strings.Join(body, "; "))
		}
		return false
	})
	return rows
}

// callsOn lists "function: call" for every call whose text starts with one of the prefixes
func (g *gen) callsOn(prefixes ...string) []string {
	var out []string
	var names []string
	for n := range g.p.funcs {
		names = append(names, n)
	}
	sort.Strings(names)
	for _, fn := range names {
		fd := g.p.funcs[fn]
		if fd.Body == nil {
			continue
		}
		ast.Inspect(fd.Body, func(n ast.Node) bool {
			ce, ok := n.(*ast.CallExpr)
			if !ok {
				return true
			}
			t := norm(g.p.text(ce.Fun))
			for _, p := range prefixes {
				if strings.HasPrefix(t, p) {
					out = append(out, fn+": "+t)
				}
			}
			return true
		})
	}
	return out
}

// identUses lists the functions (or "var" for package level) mentioning an identifier
func (g *gen) identUses(name string) []string {
	var out []string
	var fns []string
	for n := range g.p.funcs {
		fns = append(fns, n)
	}
	sort.Strings(fns)
	for _, fn := range fns {
		cnt := 0
		ast.Inspect(g.p.funcs[fn], func(n ast.Node) bool {
			if id, ok := n.(*ast.Ident); ok && id.Name == name {
				cnt++
			}
			if se, ok := n.(*ast.SelectorExpr); ok && norm(g.p.text(se)) == name {
				cnt++
			}
			return true
		})
		if cnt > 0 {
			out = append(out, fmt.Sprintf("%s x%d", fn, cnt))
		}
	}
	for fname, f := range g.p.files {
		for _, d := range f.Decls {
			gd, ok := d.(*ast.GenDecl)
			if !ok || gd.Tok != token.VAR {
				continue
			}
			t := norm(g.p.text(gd))
			if strings.Contains(t, name) {
				out = append(out, "var@"+fname+": "+t)
			}
		}
	}
	sort.Strings(out)
	return out
}

// fieldAccess: for each Conn field, which functions read / write it (syntactic: c.<field> on the
// left of an assignment or inc/dec = write)
func (g *gen) fieldAccess(fields []string) []string {
	isField := map[string]bool{}
	for _, f := range fields {
		isField[f] = true
	}
	type key struct{ field, fn, kind string }
	seen := map[key]bool{}
	for fn, fd := range g.p.funcs {
		if fd.Body == nil {
			continue
		}
		writes := map[ast.Node]bool{}
		ast.Inspect(fd.Body, func(n ast.Node) bool {
			switch x := n.(type) {
			case *ast.AssignStmt:
				for _, l := range x.Lhs {
					writes[l] = true
				}
			case *ast.IncDecStmt:
				writes[x.X] = true
			}
			return true
		})
		ast.Inspect(fd.Body, func(n ast.Node) bool {
			se, ok := n.(*ast.SelectorExpr)
			if !ok || !isField[se.Sel.Name] {
				return true
			}
			// receiver-ish expressions: c, w.c, r.c, conn
			base := norm(g.p.text(se.X))
			if base != "c" && base != "w.c" && base != "r.c" && base != "conn" && base != "r" && base != "w" {
				return true
			}
			kind := "r"
			if writes[n] {
				kind = "w"
			}
			seen[key{se.Sel.Name, fn, kind}] = true
			return true
		})
	}
	var out []string
	for k := range seen {
		out = append(out, k.field+" "+k.kind+" "+k.fn)
	}
	sort.Strings(out)
	return out
}

func skeletons(g *gen) (string, map[string][]string) {
	inv := map[string][]string{}
	var sb strings.Builder
	sb.WriteString("/- GENERATED by factgen from /repo — do not edit. -/\nnamespace WS.Gen\n\n")
	sb.WriteString("inductive Act\n  | acquire | acquireTimed | deferRelease | checkErr | setDeadline | write | checkWrite | markClose | ret\n  | validateType | validateLen | build\n  | unknown (src : String)\n  deriving DecidableEq, Repr\n\n")

	// Conn.write
	var w []string
	if fd := g.p.funcs["Conn.write"]; fd != nil && fd.Body != nil {
		w = g.lockSkeleton(fd.Body.List)
	} else {
		g.fail("Conn.write not found")
		w = []string{".unknown \"missing\""}
	}
	fmt.Fprintf(&sb, "/-- statements of Conn.write, in order -/\ndef writeSkeleton : List Act := [%s]\n\n", strings.Join(w, ", "))

	// Conn.WriteControl
	var wc []string
	if fd := g.p.funcs["Conn.WriteControl"]; fd != nil && fd.Body != nil {
		pre, k := g.controlPrefix(fd.Body.List)
		wc = append(pre, g.lockSkeleton(fd.Body.List[k:])...)
	} else {
		g.fail("Conn.WriteControl not found")
		wc = []string{".unknown \"missing\""}
	}
	fmt.Fprintf(&sb, "/-- statements of Conn.WriteControl, in order -/\ndef writeControlSkeleton : List Act := [%s]\n\n", strings.Join(wc, ", "))

	// advanceFrame header checks
	hc := g.headerChecks()
	sb.WriteString("/-- every header error advanceFrame can collect: (guarding conditions, message expression), in source order -/\ndef headerChecks : List (String × String) := [\n")
	for i, c := range hc {
		comma := ","
		if i == len(hc)-1 {
			comma = ""
		}
		fmt.Fprintf(&sb, "  (%s, %s)%s\n", leanStr(c.path), leanStr(c.msg), comma)
	}
	sb.WriteString("]\n\n")

	ls := g.lengthSwitch()
	sb.WriteString("/-- the length switch of flushFrame: condition => statements -/\ndef lengthSwitch : List String := [\n")
	for i, r := range ls {
		comma := ","
		if i == len(ls)-1 {
			comma = ""
		}
		fmt.Fprintf(&sb, "  %s%s\n", leanStr(r), comma)
	}
	sb.WriteString("]\n\n")

	// single statements whose exact text the model relies on
	stmtsOf := func(fn string) []string {
		fd := g.p.funcs[fn]
		if fd == nil || fd.Body == nil {
			g.fail("%s not found", fn)
			return nil
		}
		var out []string
		for _, s := range fd.Body.List {
			out = append(out, norm(g.p.text(s)))
		}
		return out
	}
	emitList := func(name, doc string, xs []string) {
		fmt.Fprintf(&sb, "/-- %s -/\ndef %s : List String := [\n", doc, name)
		for i, r := range xs {
			comma := ","
			if i == len(xs)-1 {
				comma = ""
			}
			fmt.Fprintf(&sb, "  %s%s\n", leanStr(r), comma)
		}
		sb.WriteString("]\n\n")
	}
	emitList("stmts_NextReader", "top-level statements of Conn.NextReader", stmtsOf("Conn.NextReader"))
	emitList("stmts_messageReaderRead", "top-level statements of messageReader.Read", stmtsOf("messageReader.Read"))
	emitList("stmts_beginMessage", "top-level statements of Conn.beginMessage", stmtsOf("Conn.beginMessage"))
	emitList("stmts_endMessage", "top-level statements of messageWriter.endMessage", stmtsOf("messageWriter.endMessage"))
	emitList("stmts_checkSameOrigin", "top-level statements of checkSameOrigin", stmtsOf("checkSameOrigin"))
	emitList("stmts_equalASCIIFold", "top-level statements of equalASCIIFold", stmtsOf("equalASCIIFold"))
	emitList("stmts_setReadRemaining", "top-level statements of Conn.setReadRemaining", stmtsOf("Conn.setReadRemaining"))
	emitList("stmts_handleProtocolError", "top-level statements of Conn.handleProtocolError", stmtsOf("Conn.handleProtocolError"))
	emitList("stmts_brNetConnRead", "top-level statements of brNetConn.Read", stmtsOf("brNetConn.Read"))
	emitList("stmts_flushFrame", "top-level statements of messageWriter.flushFrame", stmtsOf("messageWriter.flushFrame"))
	emitList("stmts_ncopy", "top-level statements of messageWriter.ncopy", stmtsOf("messageWriter.ncopy"))
	emitList("stmts_mwWrite", "top-level statements of messageWriter.Write", stmtsOf("messageWriter.Write"))
	emitList("stmts_mwWriteString", "top-level statements of messageWriter.WriteString", stmtsOf("messageWriter.WriteString"))
	emitList("stmts_mwReadFrom", "top-level statements of messageWriter.ReadFrom", stmtsOf("messageWriter.ReadFrom"))
	emitList("stmts_mwClose", "top-level statements of messageWriter.Close", stmtsOf("messageWriter.Close"))
	emitList("stmts_NextWriter", "top-level statements of Conn.NextWriter", stmtsOf("Conn.NextWriter"))
	emitList("stmts_WriteMessage", "top-level statements of Conn.WriteMessage", stmtsOf("Conn.WriteMessage"))
	emitList("stmts_WritePreparedMessage", "top-level statements of Conn.WritePreparedMessage", stmtsOf("Conn.WritePreparedMessage"))
	emitList("stmts_connWrite", "top-level statements of Conn.write", stmtsOf("Conn.write"))
	emitList("stmts_WriteControl", "top-level statements of Conn.WriteControl", stmtsOf("Conn.WriteControl"))
	emitList("stmts_advanceFrame", "top-level statements of Conn.advanceFrame", stmtsOf("Conn.advanceFrame"))
	emitList("stmts_newConn", "top-level statements of newConn", stmtsOf("newConn"))
	emitList("stmts_preparedFrame", "top-level statements of PreparedMessage.frame", stmtsOf("PreparedMessage.frame"))
	emitList("stmts_truncWrite", "top-level statements of truncWriter.Write", stmtsOf("truncWriter.Write"))
	emitList("stmts_flateWrite", "top-level statements of flateWriteWrapper.Write", stmtsOf("flateWriteWrapper.Write"))
	emitList("stmts_flateClose", "top-level statements of flateWriteWrapper.Close", stmtsOf("flateWriteWrapper.Close"))
	emitList("stmts_flateReadClose", "top-level statements of flateReadWrapper.Close", stmtsOf("flateReadWrapper.Close"))
	emitList("stmts_flateRead", "top-level statements of flateReadWrapper.Read", stmtsOf("flateReadWrapper.Read"))
	emitList("stmts_ReadMessage", "top-level statements of Conn.ReadMessage", stmtsOf("Conn.ReadMessage"))
	emitList("stmts_SetReadLimit", "top-level statements of Conn.SetReadLimit", stmtsOf("Conn.SetReadLimit"))
	emitList("stmts_tokenListContainsValue", "top-level statements of tokenListContainsValue", stmtsOf("tokenListContainsValue"))
	emitList("stmts_parseExtensions", "top-level statements of parseExtensions", stmtsOf("parseExtensions"))
	emitList("stmts_nextToken", "top-level statements of nextToken", stmtsOf("nextToken"))
	emitList("stmts_nextTokenOrQuoted", "top-level statements of nextTokenOrQuoted", stmtsOf("nextTokenOrQuoted"))
	emitList("stmts_skipSpace", "top-level statements of skipSpace", stmtsOf("skipSpace"))
	emitList("stmts_isValidChallengeKey", "top-level statements of isValidChallengeKey", stmtsOf("isValidChallengeKey"))
	emitList("stmts_computeAcceptKey", "top-level statements of computeAcceptKey", stmtsOf("computeAcceptKey"))
	emitList("stmts_selectSubprotocol", "top-level statements of Upgrader.selectSubprotocol", stmtsOf("Upgrader.selectSubprotocol"))
	emitList("stmts_hostPortNoPort", "top-level statements of hostPortNoPort", stmtsOf("hostPortNoPort"))
	emitList("stmts_maskBytes", "top-level statements of maskBytes", stmtsOf("maskBytes"))
	emitList("stmts_writeFatal", "top-level statements of Conn.writeFatal", stmtsOf("Conn.writeFatal"))
	emitList("stmts_readerClose", "top-level statements of messageReader.Close", stmtsOf("messageReader.Close"))
	emitList("stmts_SetCloseHandler", "top-level statements of Conn.SetCloseHandler", stmtsOf("Conn.SetCloseHandler"))
	emitList("stmts_SetPingHandler", "top-level statements of Conn.SetPingHandler", stmtsOf("Conn.SetPingHandler"))
	emitList("stmts_SetPongHandler", "top-level statements of Conn.SetPongHandler", stmtsOf("Conn.SetPongHandler"))
	emitList("stmts_FormatCloseMessage", "top-level statements of FormatCloseMessage", stmtsOf("FormatCloseMessage"))
	emitList("stmts_httpProxyDial", "top-level statements of httpProxyDialer.DialContext", stmtsOf("httpProxyDialer.DialContext"))
	emitList("stmts_connRead", "top-level statements of Conn.read", stmtsOf("Conn.read"))
	emitList("stmts_joinRead", "top-level statements of joinReader.Read", stmtsOf("joinReader.Read"))
	emitList("stmts_JoinMessages", "top-level statements of JoinMessages", stmtsOf("JoinMessages"))
	emitList("stmts_Subprotocols", "top-level statements of Subprotocols", stmtsOf("Subprotocols"))
	emitList("stmts_NewPreparedMessage", "top-level statements of NewPreparedMessage", stmtsOf("NewPreparedMessage"))
	emitList("stmts_decompressNCT", "top-level statements of decompressNoContextTakeover", stmtsOf("decompressNoContextTakeover"))
	emitList("stmts_compressNCT", "top-level statements of compressNoContextTakeover", stmtsOf("compressNoContextTakeover"))
	emitList("stmts_isValidCompressionLevel", "top-level statements of isValidCompressionLevel", stmtsOf("isValidCompressionLevel"))
	emitList("stmts_SetCompressionLevel", "top-level statements of Conn.SetCompressionLevel", stmtsOf("Conn.SetCompressionLevel"))
	emitList("stmts_EnableWriteCompression", "top-level statements of Conn.EnableWriteCompression", stmtsOf("Conn.EnableWriteCompression"))
	emitList("stmts_connClose", "top-level statements of Conn.Close", stmtsOf("Conn.Close"))
	emitList("stmts_newMaskKey", "top-level statements of newMaskKey", stmtsOf("newMaskKey"))
	emitList("stmts_isControl", "top-level statements of isControl", stmtsOf("isControl"))
	emitList("stmts_isData", "top-level statements of isData", stmtsOf("isData"))
	emitList("stmts_returnError", "top-level statements of Upgrader.returnError", stmtsOf("Upgrader.returnError"))
	emitList("stmts_generateChallengeKey", "top-level statements of generateChallengeKey", stmtsOf("generateChallengeKey"))
	emitList("stmts_WriteJSON", "top-level statements of Conn.WriteJSON", stmtsOf("Conn.WriteJSON"))
	emitList("stmts_ReadJSON", "top-level statements of Conn.ReadJSON", stmtsOf("Conn.ReadJSON"))
	emitList("stmts_SetWriteDeadline", "top-level statements of Conn.SetWriteDeadline", stmtsOf("Conn.SetWriteDeadline"))
	emitList("stmts_IsWebSocketUpgrade", "top-level statements of IsWebSocketUpgrade", stmtsOf("IsWebSocketUpgrade"))

	// Upgrade's validation chain: (condition, status) of every `return u.returnError(w, r, <status>, …)`
	var chain []string
	if fd := g.p.funcs["Upgrader.Upgrade"]; fd != nil {
		for _, s := range fd.Body.List {
			is, ok := s.(*ast.IfStmt)
			if !ok {
				continue
			}
			var status string
			ast.Inspect(is.Body, func(n ast.Node) bool {
				if ce, ok := n.(*ast.CallExpr); ok && norm(g.p.text(ce.Fun)) == "u.returnError" && len(ce.Args) >= 3 {
					status = norm(g.p.text(ce.Args[2]))
				}
				return true
			})
			if status != "" {
				init := ""
				if is.Init != nil {
					init = norm(g.p.text(is.Init)) + "; "
				}
				chain = append(chain, init+norm(g.p.text(is.Cond))+" => "+status)
			}
		}
	}
	emitList("upgradeChain", "Upgrade's rejection chain in order: condition => status", chain)

	// DialContext reply validation condition
	var replyCond []string
	if fd := g.p.funcs["Dialer.DialContext"]; fd != nil {
		ast.Inspect(fd, func(n ast.Node) bool {
			is, ok := n.(*ast.IfStmt)
			if ok && strings.Contains(g.p.text(is.Cond), "resp.StatusCode") {
				for _, part := range strings.Split(norm(g.p.text(is.Cond)), " || ") {
					replyCond = append(replyCond, part)
				}
			}
			return true
		})
		// forbidden caller headers
		ast.Inspect(fd, func(n ast.Node) bool {
			cc, ok := n.(*ast.CaseClause)
			if ok && len(cc.List) == 1 && strings.Contains(g.p.text(cc.List[0]), "\"Upgrade\"") {
				for _, part := range strings.Split(norm(g.p.text(cc.List[0])), " || ") {
					replyCond = append(replyCond, "forbidden: "+part)
				}
			}
			return true
		})
	}
	emitList("dialChecks", "DialContext: reply rejection disjuncts, then forbidden caller header disjuncts", replyCond)

	// field access table (C11 lock discipline)
	fa := g.fieldAccess([]string{"writeErr", "writeBuf", "writer", "isWriting", "writeDeadline", "enableWriteCompression", "compressionLevel",
		"reader", "readErr", "readRemaining", "readFinal", "readLength", "readLimit", "readMaskPos", "readMaskKey", "readErrCount", "messageReader", "readDecompress",
		"handlePong", "handlePing", "handleClose", "mu", "writeErrMu", "frames", "once"})
	sb.WriteString("/-- every syntactic access to a mutable Conn / PreparedMessage field: (field, r|w, function) -/\ndef fieldAccess : List (String × String × String) := [\n")
	for i, a := range fa {
		f := strings.Fields(a)
		comma := ","
		if i == len(fa)-1 {
			comma = ""
		}
		fmt.Fprintf(&sb, "  (%s, %s, %s)%s\n", leanStr(f[0]), leanStr(f[1]), leanStr(f[2]), comma)
	}
	sb.WriteString("]\n\n")

	sb.WriteString("end WS.Gen\n")

	// inventories (G5)
	inv["transport_calls"] = g.callsOn("c.conn.", "netConn.", "conn.Close", "conn.SetDeadline", "b.Conn.", "hpd.forwardDial", "tlsConn.")
	inv["mask_key_sites"] = append(g.callsOn("newMaskKey", "maskBytes"), g.identUses("maskRand")...)
	inv["rand_reader_sites"] = g.identUses("rand.Reader")
	inv["pool_sites"] = g.callsOn("c.writePool.", "flateReaderPool.", "p.Get", "w.p.Put")
	inv["go_statements"] = goStmts(g)
	inv["conn_field_access"] = g.fieldAccess([]string{"writeErr", "writeBuf", "writer", "isWriting", "writeDeadline", "enableWriteCompression", "compressionLevel",
		"reader", "readErr", "readRemaining", "readFinal", "readLength", "readLimit", "readMaskPos", "readMaskKey", "readErrCount", "messageReader", "readDecompress",
		"handlePong", "handlePing", "handleClose", "mu", "writeErrMu", "frames", "once"})
	inv["panic_sites"] = g.callsOn("panic")
	inv["index_sites"] = indexSites(g, []string{"Conn.advanceFrame", "messageReader.Read", "Conn.read", "nextToken", "nextTokenOrQuoted", "skipSpace", "tokenListContainsValue",
		"parseExtensions", "equalASCIIFold", "isValidChallengeKey", "checkSameOrigin", "Subprotocols", "httpProxyDialer.DialContext", "hostPortNoPort", "Conn.handleProtocolError", "maskBytes", "FormatCloseMessage"})
	return sb.String(), inv
}

func goStmts(g *gen) []string {
	var out []string
	for fn, fd := range g.p.funcs {
		if fd.Body == nil {
			continue
		}
		ast.Inspect(fd.Body, func(n ast.Node) bool {
			if _, ok := n.(*ast.GoStmt); ok {
				out = append(out, fn)
			}
			return true
		})
	}
	sort.Strings(out)
	return out
}

// indexSites: every index / slice / type assertion / make in functions fed by untrusted input
func indexSites(g *gen, fns []string) []string {
	var out []string
	for _, fn := range fns {
		fd := g.p.funcs[fn]
		if fd == nil || fd.Body == nil {
			out = append(out, fn+": MISSING")
			continue
		}
		ast.Inspect(fd.Body, func(n ast.Node) bool {
			switch x := n.(type) {
			case *ast.IndexExpr:
				out = append(out, fn+": index "+norm(g.p.text(x)))
			case *ast.SliceExpr:
				out = append(out, fn+": slice "+norm(g.p.text(x)))
			case *ast.TypeAssertExpr:
				out = append(out, fn+": assert "+norm(g.p.text(x)))
			case *ast.CallExpr:
				if id, ok := x.Fun.(*ast.Ident); ok && id.Name == "make" {
					out = append(out, fn+": make "+norm(g.p.text(x)))
				}
			}
			return true
		})
	}
	return out
}
