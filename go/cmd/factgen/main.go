// factgen: the translator half of the tie between /repo and the Lean model.
//
// It parses the non-test Go files of the repository's root package (syntax
// only) and regenerates lean/WS/Gen/*.lean: constants, tables, literals and
// the ordered "skeletons" of the critical functions. The Lean model and the
// theorems import these files, so a change to one of these facts changes the
// terms the theorems are about. Site inventories are compared with the
// hand-written expectations in expect/*.json.
//
// Anything factgen cannot recognise is emitted as an `unknown` entry, which
// makes the dependent `decide` obligations fail (fail closed).
package main

import (
	"encoding/json"
	"flag"
	"fmt"
	"go/ast"
	"go/parser"
	"go/printer"
	"go/token"
	"os"
	"path/filepath"
	"sort"
	"strconv"
	"strings"
)

type pkgInfo struct {
	fset  *token.FileSet
	files map[string]*ast.File
	funcs map[string]*ast.FuncDecl // "Recv.Name" or "Name"
	src   map[string][]byte
}

func load(repo string) (*pkgInfo, error) {
	p := &pkgInfo{fset: token.NewFileSet(), files: map[string]*ast.File{}, funcs: map[string]*ast.FuncDecl{}, src: map[string][]byte{}}
	ents, err := os.ReadDir(repo)
	if err != nil {
		return nil, err
	}
	for _, e := range ents {
		n := e.Name()
		if e.IsDir() || !strings.HasSuffix(n, ".go") || strings.HasSuffix(n, "_test.go") || n == "verif_hooks.go" || n == "mask_safe.go" {
			continue
		}
		b, err := os.ReadFile(filepath.Join(repo, n))
		if err != nil {
			return nil, err
		}
		f, err := parser.ParseFile(p.fset, n, b, parser.ParseComments)
		if err != nil {
			return nil, err
		}
		p.files[n] = f
		p.src[n] = b
		for _, d := range f.Decls {
			if fd, ok := d.(*ast.FuncDecl); ok {
				name := fd.Name.Name
				if fd.Recv != nil && len(fd.Recv.List) == 1 {
					t := fd.Recv.List[0].Type
					if s, ok := t.(*ast.StarExpr); ok {
						t = s.X
					}
					if id, ok := t.(*ast.Ident); ok {
						name = id.Name + "." + name
					}
				}
				p.funcs[name] = fd
			}
		}
	}
	return p, nil
}

func (p *pkgInfo) text(n ast.Node) string {
	var sb strings.Builder
	printer.Fprint(&sb, p.fset, n)
	return sb.String()
}

// ---- constants -------------------------------------------------------------

type constEnv map[string]int64

func (p *pkgInfo) evalConst(env constEnv, e ast.Expr) (int64, bool) {
	switch x := e.(type) {
	case *ast.BasicLit:
		switch x.Kind {
		case token.INT:
			v, err := strconv.ParseInt(x.Value, 0, 64)
			return v, err == nil
		case token.CHAR:
			s, err := strconv.Unquote(x.Value)
			if err != nil || len(s) == 0 {
				return 0, false
			}
			return int64([]rune(s)[0]), true
		}
	case *ast.Ident:
		v, ok := env[x.Name]
		return v, ok
	case *ast.ParenExpr:
		return p.evalConst(env, x.X)
	case *ast.UnaryExpr:
		v, ok := p.evalConst(env, x.X)
		if !ok {
			return 0, false
		}
		switch x.Op {
		case token.SUB:
			return -v, true
		case token.ADD:
			return v, true
		}
	case *ast.BinaryExpr:
		a, ok1 := p.evalConst(env, x.X)
		b, ok2 := p.evalConst(env, x.Y)
		if !ok1 || !ok2 {
			return 0, false
		}
		switch x.Op {
		case token.ADD:
			return a + b, true
		case token.SUB:
			return a - b, true
		case token.MUL:
			return a * b, true
		case token.SHL:
			return a << uint(b), true
		case token.OR:
			return a | b, true
		}
	case *ast.SelectorExpr:
		// the few imported constants the package uses
		switch p.text(x) {
		case "flate.BestCompression":
			return 9, true
		case "time.Second":
			return 1000000000, true
		case "http.StatusBadRequest":
			return 400, true
		case "http.StatusForbidden":
			return 403, true
		case "http.StatusMethodNotAllowed":
			return 405, true
		case "http.StatusUpgradeRequired":
			return 426, true
		case "http.StatusInternalServerError":
			return 500, true
		case "http.StatusOK":
			return 200, true
		}
	}
	return 0, false
}

func (p *pkgInfo) constants() (constEnv, []string) {
	env := constEnv{}
	var order []string
	var names []string
	for n := range p.files {
		names = append(names, n)
	}
	sort.Strings(names)
	// two passes so that order of files does not matter
	for pass := 0; pass < 2; pass++ {
		for _, n := range names {
			for _, d := range p.files[n].Decls {
				gd, ok := d.(*ast.GenDecl)
				if !ok || gd.Tok != token.CONST {
					continue
				}
				for _, s := range gd.Specs {
					vs := s.(*ast.ValueSpec)
					for i, id := range vs.Names {
						if i >= len(vs.Values) {
							continue
						}
						if _, done := env[id.Name]; done {
							continue
						}
						if v, ok := p.evalConst(env, vs.Values[i]); ok {
							env[id.Name] = v
							order = append(order, id.Name)
						}
					}
				}
			}
		}
	}
	return env, order
}

func leanName(s string) string {
	// Lean identifiers: keep Go names, lower-case first letter is not required
	return s
}

// ---- tables ----------------------------------------------------------------

func (p *pkgInfo) findVar(name string) ast.Expr {
	for _, f := range p.files {
		for _, d := range f.Decls {
			gd, ok := d.(*ast.GenDecl)
			if !ok || gd.Tok != token.VAR {
				continue
			}
			for _, s := range gd.Specs {
				vs := s.(*ast.ValueSpec)
				for i, id := range vs.Names {
					if id.Name == name && i < len(vs.Values) {
						return vs.Values[i]
					}
				}
			}
		}
	}
	return nil
}

type problem struct{ msg string }

type gen struct {
	p        *pkgInfo
	env      constEnv
	problems []string
}

func (g *gen) fail(f string, a ...interface{}) {
	g.problems = append(g.problems, fmt.Sprintf(f, a...))
}

func (g *gen) closeCodeTable() string {
	e := g.p.findVar("validReceivedCloseCodes")
	cl, ok := e.(*ast.CompositeLit)
	if !ok {
		g.fail("validReceivedCloseCodes is not a composite literal")
		return "def validReceivedCloseCodes : List (Int × Bool) := []\ndef closeCodeTableRecognised : Bool := false\n"
	}
	var rows []string
	for _, el := range cl.Elts {
		kv, ok := el.(*ast.KeyValueExpr)
		if !ok {
			g.fail("close code table: unrecognised element %s", g.p.text(el))
			continue
		}
		k, ok1 := g.p.evalConst(g.env, kv.Key)
		v := g.p.text(kv.Value)
		if !ok1 || (v != "true" && v != "false") {
			g.fail("close code table: unrecognised entry %s", g.p.text(el))
			continue
		}
		rows = append(rows, fmt.Sprintf("(%d, %s)", k, v))
	}
	return "def validReceivedCloseCodes : List (Int × Bool) := [" + strings.Join(rows, ", ") + "]\ndef closeCodeTableRecognised : Bool := " + fmt.Sprint(len(g.problems) == 0) + "\n"
}

// isValidReceivedCloseCode: `return validReceivedCloseCodes[code] || (code >= A && code <= B)`
func (g *gen) closeCodeRange() string {
	fd := g.p.funcs["isValidReceivedCloseCode"]
	bad := "def closeCodeRangeLo : Int := 0\ndef closeCodeRangeHi : Int := -1\ndef closeCodeRangeRecognised : Bool := false\n"
	if fd == nil || fd.Body == nil || len(fd.Body.List) != 1 {
		g.fail("isValidReceivedCloseCode: unexpected shape")
		return bad
	}
	ret, ok := fd.Body.List[0].(*ast.ReturnStmt)
	if !ok || len(ret.Results) != 1 {
		g.fail("isValidReceivedCloseCode: unexpected shape")
		return bad
	}
	want := "validReceivedCloseCodes[code] || (code >= %d && code <= %d)"
	txt := g.p.text(ret.Results[0])
	var lo, hi int64
	if n, _ := fmt.Sscanf(txt, want, &lo, &hi); n != 2 || fmt.Sprintf(want, lo, hi) != txt {
		g.fail("isValidReceivedCloseCode: unrecognised expression %q", txt)
		return bad
	}
	return fmt.Sprintf("def closeCodeRangeLo : Int := %d\ndef closeCodeRangeHi : Int := %d\ndef closeCodeRangeRecognised : Bool := true\n", lo, hi)
}

func (g *gen) tokenOctets() string {
	e := g.p.findVar("isTokenOctet")
	cl, ok := e.(*ast.CompositeLit)
	tab := make([]bool, 256)
	okAll := ok
	if ok {
		for _, el := range cl.Elts {
			kv, ok := el.(*ast.KeyValueExpr)
			if !ok {
				okAll = false
				continue
			}
			k, ok1 := g.p.evalConst(g.env, kv.Key)
			if !ok1 || k < 0 || k > 255 || g.p.text(kv.Value) != "true" {
				okAll = false
				continue
			}
			tab[k] = true
		}
	}
	if !okAll {
		g.fail("isTokenOctet: unrecognised table")
	}
	var idx []string
	for i, b := range tab {
		if b {
			idx = append(idx, fmt.Sprint(i))
		}
	}
	return "/-- the octets for which `isTokenOctet` is true -/\ndef tokenOctets : List Nat := [" + strings.Join(idx, ", ") + "]\ndef tokenOctetsRecognised : Bool := " + fmt.Sprint(okAll) + "\n"
}

func leanBytes(s string) string {
	var parts []string
	for i := 0; i < len(s); i++ {
		parts = append(parts, fmt.Sprint(s[i]))
	}
	return "[" + strings.Join(parts, ", ") + "]"
}

// string literals found at known places
func (g *gen) literals() string {
	var sb strings.Builder
	// keyGUID
	if e := g.p.findVar("keyGUID"); e != nil {
		txt := g.p.text(e)
		var s string
		if strings.HasPrefix(txt, "[]byte(") {
			s, _ = strconv.Unquote(strings.TrimSuffix(strings.TrimPrefix(txt, "[]byte("), ")"))
		}
		if s == "" {
			g.fail("keyGUID: unrecognised initialiser %q", txt)
		}
		fmt.Fprintf(&sb, "def keyGUID : List UInt8 := %s\n", leanBytes(s))
	} else {
		g.fail("keyGUID not found")
		sb.WriteString("def keyGUID : List UInt8 := []\n")
	}
	// every string literal of selected functions, in source order
	for _, fn := range []string{"Upgrader.Upgrade", "Dialer.DialContext", "decompressNoContextTakeover", "hostPortNoPort"} {
		fd := g.p.funcs[fn]
		var lits []string
		if fd != nil {
			ast.Inspect(fd, func(n ast.Node) bool {
				if bl, ok := n.(*ast.BasicLit); ok && bl.Kind == token.STRING {
					if s, err := strconv.Unquote(bl.Value); err == nil {
						lits = append(lits, s)
					}
				}
				return true
			})
		} else {
			g.fail("function %s not found", fn)
		}
		name := strings.ReplaceAll(fn, ".", "_")
		fmt.Fprintf(&sb, "def lits_%s : List (List UInt8) := [\n", name)
		for i, l := range lits {
			c := ","
			if i == len(lits)-1 {
				c = ""
			}
			fmt.Fprintf(&sb, "  %s%s -- %q\n", leanBytes(l), c, l)
		}
		sb.WriteString("]\n")
	}
	// the [4]byte tail in flateWriteWrapper.Close
	tail := ""
	if fd := g.p.funcs["flateWriteWrapper.Close"]; fd != nil {
		ast.Inspect(fd, func(n ast.Node) bool {
			if cl, ok := n.(*ast.CompositeLit); ok && g.p.text(cl.Type) == "[4]byte" {
				var xs []string
				for _, el := range cl.Elts {
					if v, ok := g.p.evalConst(g.env, el); ok {
						xs = append(xs, fmt.Sprint(v))
					}
				}
				tail = "[" + strings.Join(xs, ", ") + "]"
			}
			return true
		})
	}
	if tail == "" {
		g.fail("flateWriteWrapper.Close: tail literal not found")
		tail = "[]"
	}
	fmt.Fprintf(&sb, "def flateTail : List UInt8 := %s\n", tail)
	return sb.String()
}

func main() {
	repo := flag.String("repo", "/repo", "repository root")
	out := flag.String("out", "", "output directory for generated Lean")
	expect := flag.String("expect", "", "directory with expectation tables")
	dump := flag.String("dump", "", "write the inventories found to this file")
	flag.Parse()
	p, err := load(*repo)
	if err != nil {
		fmt.Println("factgen: cannot parse repository:", err)
		os.Exit(2)
	}
	env, order := p.constants()
	g := &gen{p: p, env: env}

	os.MkdirAll(*out, 0o755)
	old, _ := filepath.Glob(filepath.Join(*out, "*.lean"))
	writes := map[string]string{}

	var sb strings.Builder
	sb.WriteString("/- GENERATED by factgen from /repo — do not edit. -/\nnamespace WS.Gen\n\n")
	for _, n := range order {
		fmt.Fprintf(&sb, "def %s : Int := %d\n", leanName(n), env[n])
	}
	sb.WriteString("\nend WS.Gen\n")
	writes["Consts.lean"] = sb.String()

	sb.Reset()
	sb.WriteString("/- GENERATED by factgen from /repo — do not edit. -/\nnamespace WS.Gen\n\n")
	sb.WriteString(g.closeCodeTable())
	sb.WriteString(g.closeCodeRange())
	sb.WriteString(g.tokenOctets())
	sb.WriteString(g.literals())
	sb.WriteString("\nend WS.Gen\n")
	writes["Tables.lean"] = sb.String()

	sk, inv := skeletons(g)
	writes["Skeletons.lean"] = sk

	// write only files whose content changed (keeps lake's incremental build cheap), delete strays
	for _, f := range old {
		if _, ok := writes[filepath.Base(f)]; !ok {
			os.Remove(f)
		}
	}
	for name, content := range writes {
		path := filepath.Join(*out, name)
		if b, err := os.ReadFile(path); err == nil && string(b) == content {
			continue
		}
		if err := os.WriteFile(path, []byte(content), 0o644); err != nil {
			fmt.Println("factgen:", err)
			os.Exit(2)
		}
	}

	rc := 0
	for _, pr := range g.problems {
		fmt.Println("EXPECT-FAIL ALL unrecognised:", pr)
		rc = 1
	}
	// inventories vs expectations
	if *expect != "" {
		b, err := os.ReadFile(filepath.Join(*expect, "inventory.json"))
		if err == nil {
			var want map[string]struct {
				Props []string `json:"props"`
				Items []string `json:"items"`
			}
			if err := json.Unmarshal(b, &want); err != nil {
				fmt.Println("EXPECT-FAIL ALL bad expectation file:", err)
				rc = 1
			}
			for name, w := range want {
				got := inv[name]
				if strings.Join(got, "\n") != strings.Join(w.Items, "\n") {
					fmt.Printf("EXPECT-FAIL %s inventory %s changed:\n  expected: %s\n  found:    %s\n", strings.Join(w.Props, ","), name, strings.Join(w.Items, " | "), strings.Join(got, " | "))
					rc = 1
				}
			}
		}
	}
	if *dump != "" {
		js, _ := json.MarshalIndent(inv, "", " ")
		os.WriteFile(*dump, js, 0o644)
	}
	os.Exit(rc)
}
