module verifharness

go 1.20

require github.com/gorilla/websocket v0.0.0

require golang.org/x/net v0.26.0

replace github.com/gorilla/websocket => /repo
