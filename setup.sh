#!/bin/sh
# Build the framework from files on disk only (offline).
set -e
cd "$(dirname "$0")"
export GOFLAGS=-mod=mod GOPROXY=off GOSUMDB=off GOTOOLCHAIN=local CGO_ENABLED=0
mkdir -p build evidence replays
cp /repo/go.sum go/go.sum
(cd go && go build -o ../build/factgen ./cmd/factgen && go build -tags verif -o ../build/harness ./cmd/harness)
./build/factgen -repo /repo -out lean/WS/Gen -expect expect >/dev/null || true
(cd lean && lake build WS wsmodel)
