#!/usr/bin/env python3
"""Emit a `… _as_modelled` theorem pinning regenerated statement lists (lean/WS/Gen/Skeletons.lean) to the
text the model was written against. usage: tools_pin.py <theoremName> <docstring> <Gen def> [<Gen def> ...]"""
import re, sys, os
V = os.path.dirname(os.path.abspath(__file__))
src = open(os.path.join(V, "lean/WS/Gen/Skeletons.lean")).read()
def lit(name):
    m = re.search(r"def %s : List String := \[\n(.*?)\n\]" % re.escape(name), src, flags=re.S)
    assert m, name
    return "[" + m.group(1).strip() + "]"
name, doc, defs = sys.argv[1], sys.argv[2], sys.argv[3:]
parts = ["    Gen.%s =\n      %s" % (d, lit(d).replace("\n", "\n      ")) for d in defs]
tac = "rfl" if len(defs) == 1 else "refine ⟨" + ", ".join("?_" for _ in defs) + "⟩ <;> rfl"
print("/-- %s -/\ntheorem %s :\n%s := by\n  %s\n" % (doc, name, " ∧\n".join(parts), tac))
