#!/usr/bin/env python3
"""Regenerate MANIFEST.json from props.py (property list, levels, notes)."""
import json, os, sys
V = os.path.dirname(os.path.abspath(__file__))
sys.path.insert(0, V)
from props import PROPS, NOT_APPLICABLE, NOTES

ids = [json.loads(l)["id"] for l in open(os.path.join(V, "properties.jsonl"))]
checks = []
for pid in ids:
    if pid not in PROPS:
        continue
    c = PROPS[pid]
    checks.append({
        "property_id": pid,
        "quick_cmd": f"./check {pid} quick",
        "thorough_cmd": f"./check {pid} thorough",
        "evidence_file": f"/verif/evidence/{pid}.json",
        "replay_cmd_template": "./check replay {path}",
        "engine": "lean4-proof+correspondence",
        "level_claimed": {"category": c["level"], "text": c["level_text"], "design_ref": c.get("design_ref", "DESIGN.md §6 " + pid)},
        "level_note": c["level_note"],
        "technique": c["technique"],
    })
hooks_commits = [l.strip() for l in os.popen("git -C /repo log --format=%H -- verif_hooks.go").read().split() if l.strip()]
m = {
    "version": 1,
    "setup_cmd": "./setup.sh",
    "hooks": {
        "guard": "verif",
        "enable": "go build -tags verif (harness module in /verif/go with replace github.com/gorilla/websocket => /repo)",
        "baseline_off_cmd": "cd /repo && GOFLAGS=-mod=mod GOPROXY=off GOSUMDB=off GOTOOLCHAIN=local go test -json -vet=off -count=1 -timeout 25m ./...",
        "source_commits": hooks_commits,
        "add_only": True,
    },
    "engines": [
        {"name": "lean4-proof+correspondence", "path": "/verif/lean", "serves_properties": [c["property_id"] for c in checks],
         "kind_free_text": "Lean 4 theorems over a hand-written executable model (lean/WS), re-checked against facts regenerated from /repo by go/cmd/factgen; model tied to the code by a differential harness (go/cmd/harness) driving the real package and the compiled model (wsmodel) with the same scripts; independent RFC oracles search for failing inputs"},
    ],
    "checks": checks,
    "not_applicable": NOT_APPLICABLE,
    "notes": NOTES,
}
json.dump(m, open(os.path.join(V, "MANIFEST.json"), "w"), indent=1)
print("wrote MANIFEST.json with", len(checks), "checks;", len(NOT_APPLICABLE), "not claimed")
