#!/usr/bin/env python3
"""Fast parallel triage of seeded changes (NOT the registered check): for each seeded/<id>, make a scratch copy of
/repo HEAD with the patch applied, build the harness against it, run the owning property's streams (quick
sizes, seed as the check uses) against the shared wsmodel binary and report oracle violations / diffs.
Everything lives under /tmp/tri and is removed afterwards. usage: tools_triage.py [ids...]"""
import glob, json, os, shutil, subprocess, sys, concurrent.futures as cf
V = os.path.dirname(os.path.abspath(__file__))
sys.path.insert(0, V)
from props import PROPS
ENV = dict(os.environ, GOFLAGS="-mod=mod", GOPROXY="off", GOSUMDB="off", GOTOOLCHAIN="local", GOMEMLIMIT="6GiB")
KNOWN = ",".join(l.split("sig=")[1].split()[0] for l in open(V + "/KNOWN_FINDINGS.txt") if l.startswith("known:") and "sig=" in l)

def sh(cmd, cwd=None, timeout=1800, env=ENV):
    p = subprocess.run(cmd, cwd=cwd, env=env, shell=isinstance(cmd, str), stdout=subprocess.PIPE, stderr=subprocess.STDOUT, text=True, errors="replace", timeout=timeout)
    return p.returncode, p.stdout

def one(sid):
    prop = sid.split("-")[0]
    d = "/tmp/tri/" + sid
    shutil.rmtree(d, ignore_errors=True)
    os.makedirs(d)
    rc, out = sh(f"git -C /repo archive HEAD | tar -x -C {d}/repo --one-top-level={d}/repo 2>/dev/null || (mkdir -p {d}/repo && git -C /repo archive HEAD | tar -x -C {d}/repo)")
    rc, out = sh(f"git init -q . && git apply {V}/seeded/{sid}/patch.diff", cwd=d + "/repo")
    if rc != 0:
        return sid, "patch does not apply: " + out[-200:]
    shutil.copytree(V + "/go", d + "/go")
    gm = open(d + "/go/go.mod").read().replace("=> /repo", "=> " + d + "/repo")
    open(d + "/go/go.mod", "w").write(gm)
    rc, out = sh(["go", "build", "-tags", "verif", "-o", d + "/harness", "./cmd/harness"], cwd=d + "/go")
    if rc != 0:
        shutil.rmtree(d, ignore_errors=True)
        return sid, "TIE harness does not build: " + out[-300:]
    res = []
    for (st, nq, nt) in PROPS[prop]["streams"]:
        for seed in (131, 977 + 13):
            outp = f"{d}/{st}-{seed}.json"
            try:
                rc, out = sh([d + "/harness", "-stream", st, "-seed", str(seed), "-n", str(max(nq, 300)), "-out", outp], cwd=V, env=dict(ENV, VERIF_KNOWN=KNOWN), timeout=1500)
            except subprocess.TimeoutExpired:
                res.append(f"{st}:{seed}:CRASH(timeout)"); continue
            try:
                j = json.load(open(outp))
            except Exception:
                res.append(f"{st}:{seed}:CRASH({out[-120:]!r})"); continue
            v, dd = j.get("violations") or [], j.get("diffs") or []
            w = ""
            if v:
                w = " «" + "; ".join(v[0].get("what", []))[:160] + "»"
            res.append(f"{st}:{seed}:viol={len(v)},diff={len(dd)}{w}")
    shutil.rmtree(d, ignore_errors=True)
    caught = any("viol=" in r and "viol=0" not in r or "CRASH" in r for r in res)
    return sid, ("ORACLE " if caught else ("DIFF-ONLY " if any("diff=" in r and "diff=0" not in r for r in res) else "NOTHING ")) + " | ".join(res)

if __name__ == "__main__":
    ids = sys.argv[1:] or sorted(os.path.basename(p) for p in glob.glob(V + "/seeded/C*-*"))
    os.makedirs("/tmp/tri", exist_ok=True)
    with cf.ThreadPoolExecutor(int(os.environ.get("TRI_WORKERS", "6"))) as ex:
        for sid, msg in ex.map(one, ids):
            print(sid, msg, flush=True)
    shutil.rmtree("/tmp/tri", ignore_errors=True)
